-- POSIX single-quote lexing of ' ++ esc s ++ ' yields exactly s (used by C18, C16).
-- esc is strings.ReplaceAll(s, "'", "'\\''") on character lists.
def esc : List Char → List Char
  | [] => []
  | c :: cs => if c = '\'' then '\'' :: '\\' :: '\'' :: '\'' :: esc cs else c :: esc cs

def lex : Bool → List Char → Option (List Char)
  | false, [] => some []
  | true, [] => none
  | true, c :: cs => if c = '\'' then lex false cs else (lex true cs).map (c :: ·)
  | false, [_] => none
  | false, c :: d :: ds =>
      if c = '\'' then lex true (d :: ds)
      else if c = '\\' then (lex false ds).map (d :: ·)
      else none

theorem lex_esc (s : List Char) : lex true (esc s ++ ['\'']) = some s := by
  induction s with
  | nil => simp [esc, lex]
  | cons c cs ih =>
    by_cases h : c = '\''
    · subst h
      have : esc ('\'' :: cs) ++ ['\''] = '\'' :: '\\' :: '\'' :: '\'' :: (esc cs ++ ['\'']) := by
        simp [esc]
      rw [this]
      cases hcs : esc cs ++ ['\''] with
      | nil => simp at hcs
      | cons d ds =>
        rw [hcs] at ih
        simp only [lex] at ih ⊢
        simpa using ih
    · have : esc (c :: cs) ++ ['\''] = c :: (esc cs ++ ['\'']) := by simp [esc, h]
      rw [this]
      simp [lex, h, ih]

theorem shquote_esc (s : List Char) : lex false ('\'' :: (esc s ++ ['\''])) = some s := by
  cases hcs : esc s ++ ['\''] with
  | nil => simp at hcs
  | cons d ds =>
    have := lex_esc s
    rw [hcs] at this
    simp only [lex] at this ⊢
    simpa using this
