#!/bin/bash
# usage: scripts_mut.sh <file> <sed-expr> <govc verify args...>   (scratch worktree at /tmp/mut)
set -e
f=$1; sedx=$2; shift 2
[ -d /tmp/mut ] || { git -C /repo worktree prune; git -C /repo worktree add -q --detach /tmp/mut HEAD; }
cd /tmp/mut && git checkout -q -- . && git clean -fdq && git checkout -q --detach $(git -C /repo rev-parse HEAD)
(cd /repo && find . -name zz_contracts_verif.go) | while read c; do cp /repo/$c /tmp/mut/$c; done
sed -i "$sedx" $f
git diff --stat -- $f | tail -1
(go build ./... 2>&1 | head -3)
GOVC_REPO=/tmp/mut /verif/bin/govc verify "$@" 2>&1 | grep -v "^abstracted" | grep -vE "^(==|unsupported)" | cut -c1-230
