package main

// contract.go - parser for //@ contract files.

import (
	"fmt"
	"os"
	"regexp"
	"strconv"
	"strings"
)

type Clause struct {
	Kind  string
	Label string
	Props []string
	Expr  string
	File  string
	Line  int
}

type LoopSpec struct {
	Path    string
	Counter string
	Invs    []*Clause
	Hints   []*Clause
	Applies []*Clause
	Decr    *Clause
	From    map[string][]string // invariant label -> facts its preservation follows from
}

type Hook struct {
	Kind    string // call | send | recv | after | before | go | return
	Target  string
	Params  []string
	Results []string
	Body    string
	Props   []string
	File    string
	Line    int
}

type GhostVar struct {
	Name string
	Type string
	Init string
}

type ParamSpec struct {
	Name string
	Type string
}

type FuncSpec struct {
	Name     string
	Pkg      string // package path the spec belongs to ("" for library specs)
	Params   []string
	Results  []string
	Props    []string
	Requires []*Clause
	Ensures  []*Clause
	Loops    map[string]*LoopSpec
	Hooks    []*Hook
	Ghosts   []GhostVar
	Uses     []string
	Modifies []string
	Nilable  map[string]bool
	Flows    map[string][]string
	AssignsNone bool
	Holds    []string
	Acquires []string // locks the function takes (and releases) while it runs
	Allocates map[string]bool
	DeadReturn map[int]bool // return statements (by ordinal) the contract declares unreachable
	Binds      map[string]map[string]string // callee -> ghost parameter -> caller expression
	Locals     []string // names defined in the function (parameters, results, locals, in source order) when the contract was written
	Trusted  bool
	Pure     bool
	NoSafety bool // do not emit zero-annotation safety obligations
	CalledOnlyBy []string // the only functions of the package that may call this one
	Terminates bool // every activation ends: only finite range loops or loops with a decreases clause, no recursion
	File     string
	Line     int
}

type LockSpec struct {
	Field     string
	Protects  []string
	Inv       []*Clause
	Guarantee []*Clause
	Rely      []*Clause
	Fresh     []*Clause
}

type TypeSpec struct {
	Name   string
	Recv   string
	Ghosts []GhostVar
	NonNil map[string]bool
	Locks  map[string]*LockSpec
	File   string
	Line   int
}

type SpecFunc struct {
	Name   string
	Params []ParamSpec
	Res    string
	Body   string
	File   string
	Line   int
}

type Lemma struct {
	Name   string
	Params []ParamSpec
	Body   string
	Props  []string
	Using  []string
	Axiom  bool
	File   string
	Line   int
}

type ContractFile struct {
	Path   string
	LockOrder [][2]string // declared order: [0] may be held while [1] is taken
	Funcs  []*FuncSpec
	Types  []*TypeSpec
	Specs  []*SpecFunc
	Lemmas []*Lemma
}

var clauseKeywords = map[string]bool{
	"spec": true, "axiom": true, "lemma": true, "type": true, "func": true,
	"props": true, "trusted": true, "pure": true, "requires": true, "ensures": true,
	"modifies": true, "ghost": true, "use": true, "on": true, "after": true, "before": true,
	"loop": true, "invariant": true, "hint": true, "preserved": true, "apply": true, "decreases": true, "nonnil": true, "lock": true,
	"lockinv": true, "guarantee": true, "rely": true, "fresh": true, "exit": true, "flows": true, "assigns": true, "assumes": true, "holds": true, "allocates": true, "deadreturn": true, "bind": true, "locals": true, "nilable": true, "nosafety": true, "terminates": true, "calledonlyby": true, "forbids": true, "acquires": true, "lockorder": true, "using": true,
}

type rawClause struct {
	kw   string
	rest string
	line int
}

// readClauses splits a file into clauses (keyword + text), joining
// continuation lines.
func readClauses(path string, requirePrefix bool) ([]rawClause, error) {
	data, err := os.ReadFile(path)
	if err != nil {
		return nil, err
	}
	var out []rawClause
	for i, line := range strings.Split(string(data), "\n") {
		t := strings.TrimSpace(line)
		if requirePrefix {
			if !strings.HasPrefix(t, "//@") {
				continue
			}
			t = strings.TrimPrefix(t, "//@")
		} else {
			if strings.HasPrefix(t, "#") {
				continue
			}
			t = strings.TrimPrefix(t, "//@")
		}
		// strip trailing comment " // ..." only when preceded by two spaces
		if j := strings.Index(t, "  // "); j >= 0 {
			t = t[:j]
		}
		t = strings.TrimSpace(t)
		if t == "" {
			continue
		}
		kw := t
		if j := strings.IndexAny(t, " \t{"); j >= 0 {
			kw = t[:j]
		}
		if kw == "exit:" {
			kw = "exit"
		}
		if clauseKeywords[kw] {
			out = append(out, rawClause{kw: kw, rest: strings.TrimSpace(t[len(kw):]), line: i + 1})
		} else {
			if len(out) == 0 {
				return nil, fmt.Errorf("%s:%d: text before first clause: %q", path, i+1, t)
			}
			out[len(out)-1].rest += " " + t
		}
	}
	return out, nil
}

var (
	reProps     = regexp.MustCompile(`^\{([A-Za-z0-9_, ]+)\}\s*`)
	reLabel     = regexp.MustCompile(`^([A-Za-z_][A-Za-z0-9_.]*):\s*`)
	reFuncHead  = regexp.MustCompile(`^([A-Za-z_][A-Za-z0-9_.#/<>]*)\s*\(([^)]*)\)\s*(?:\(([^)]*)\))?\s*$`)
	reOnCall    = regexp.MustCompile(`^(call|enter|send|recv|assign|go|close)\s+([^\s(]+)\s*\(([^)]*)\)\s*(?:\(([^)]*)\))?\s*:\s*(.*)$`)
	reAnchor    = regexp.MustCompile(`^"((?:[^"\\]|\\.)*)"\s*:\s*(.*)$`)
	reSpecHead  = regexp.MustCompile(`^([A-Za-z_][A-Za-z0-9_]*)\s*\(([^)]*)\)\s*(\S+)\s*=\s*(.*)$`)
	reLemmaHead = regexp.MustCompile(`^([A-Za-z_][A-Za-z0-9_]*)\s*(?:\(([^)]*)\))?\s*:\s*(.*)$`)
)

func splitNames(s string) []string {
	var out []string
	for _, p := range strings.Split(s, ",") {
		p = strings.TrimSpace(p)
		if p != "" {
			out = append(out, p)
		}
	}
	return out
}

func parseParams(s string) ([]ParamSpec, error) {
	var out []ParamSpec
	for _, p := range splitNames(s) {
		f := strings.Fields(p)
		if len(f) != 2 {
			return nil, fmt.Errorf("bad typed parameter %q", p)
		}
		out = append(out, ParamSpec{Name: f[0], Type: f[1]})
	}
	return out, nil
}

func parseClause(kind, rest, file string, line int) *Clause {
	c := &Clause{Kind: kind, File: file, Line: line}
	if m := reProps.FindStringSubmatch(rest); m != nil {
		c.Props = splitNames(m[1])
		rest = rest[len(m[0]):]
	}
	if m := reLabel.FindStringSubmatch(rest); m != nil {
		c.Label = m[1]
		rest = rest[len(m[0]):]
	}
	c.Expr = strings.TrimSpace(rest)
	return c
}

func parseContractFile(path string, requirePrefix bool) (*ContractFile, error) {
	raw, err := readClauses(path, requirePrefix)
	if err != nil {
		return nil, err
	}
	cf := &ContractFile{Path: path}
	var curF *FuncSpec
	var curT *TypeSpec
	var curL *LoopSpec
	var curLemma *Lemma
	errf := func(rc rawClause, f string, a ...any) error {
		return fmt.Errorf("%s:%d: %s", path, rc.line, fmt.Sprintf(f, a...))
	}
	for _, rc := range raw {
		switch rc.kw {
		case "spec":
			m := reSpecHead.FindStringSubmatch(rc.rest)
			if m == nil {
				return nil, errf(rc, "bad spec head: %q", rc.rest)
			}
			ps, err := parseParams(m[2])
			if err != nil {
				return nil, errf(rc, "%v", err)
			}
			cf.Specs = append(cf.Specs, &SpecFunc{Name: m[1], Params: ps, Res: m[3], Body: m[4], File: path, Line: rc.line})
			curF, curT, curL, curLemma = nil, nil, nil, nil
		case "axiom", "lemma":
			rest := rc.rest
			var props []string
			if m := reProps.FindStringSubmatch(rest); m != nil {
				props = splitNames(m[1])
				rest = rest[len(m[0]):]
			}
			m := reLemmaHead.FindStringSubmatch(rest)
			if m == nil {
				return nil, errf(rc, "bad %s head: %q", rc.kw, rc.rest)
			}
			ps, err := parseParams(m[2])
			if err != nil {
				return nil, errf(rc, "%v", err)
			}
			curLemma = &Lemma{Name: m[1], Params: ps, Body: m[3], Props: props, Axiom: rc.kw == "axiom", File: path, Line: rc.line}
			cf.Lemmas = append(cf.Lemmas, curLemma)
			curF, curT, curL = nil, nil, nil
		case "using":
			if curLemma == nil {
				return nil, errf(rc, "using outside lemma")
			}
			curLemma.Using = append(curLemma.Using, splitNames(rc.rest)...)
		case "type":
			f := strings.Fields(rc.rest)
			if len(f) != 3 || f[1] != "as" {
				return nil, errf(rc, "expected: type T as recv")
			}
			curT = &TypeSpec{Name: f[0], Recv: f[2], NonNil: map[string]bool{}, Locks: map[string]*LockSpec{}, File: path, Line: rc.line}
			cf.Types = append(cf.Types, curT)
			curF, curL, curLemma = nil, nil, nil
		case "func":
			m := reFuncHead.FindStringSubmatch(rc.rest)
			if m == nil {
				return nil, errf(rc, "bad func head: %q", rc.rest)
			}
			curF = &FuncSpec{Name: m[1], Params: splitNames(m[2]), Results: splitNames(m[3]), Loops: map[string]*LoopSpec{}, Nilable: map[string]bool{}, File: path, Line: rc.line}
			cf.Funcs = append(cf.Funcs, curF)
			curT, curL, curLemma = nil, nil, nil
		case "props":
			if curF == nil {
				return nil, errf(rc, "props outside func")
			}
			curF.Props = append(curF.Props, strings.Fields(strings.ReplaceAll(rc.rest, ",", " "))...)
		case "trusted":
			if curF == nil {
				return nil, errf(rc, "trusted outside func")
			}
			curF.Trusted = true
		case "pure":
			if curF == nil {
				return nil, errf(rc, "pure outside func")
			}
			curF.Pure = true
		case "calledonlyby":
			if curF == nil {
				return nil, errf(rc, "calledonlyby outside func")
			}
			curF.CalledOnlyBy = append(curF.CalledOnlyBy, splitNames(rc.rest)...)
		case "terminates":
			if curF == nil {
				return nil, errf(rc, "terminates outside func")
			}
			curF.Terminates = true
		case "nosafety":
			if curF == nil {
				return nil, errf(rc, "nosafety outside func")
			}
			curF.NoSafety = true
		case "requires", "ensures", "assumes":
			if curF == nil {
				return nil, errf(rc, "%s outside func", rc.kw)
			}
			c := parseClause(rc.kw, rc.rest, path, rc.line)
			if rc.kw == "assumes" {
				// a precondition established by the environment (e.g. net/http
				// calling a handler); recorded in the trusted base
				c.Kind = "assumes"
				curF.Requires = append(curF.Requires, c)
			} else if rc.kw == "requires" {
				curF.Requires = append(curF.Requires, c)
			} else {
				curF.Ensures = append(curF.Ensures, c)
			}
			curL = nil
		case "modifies":
			if curF == nil {
				return nil, errf(rc, "modifies outside func")
			}
			curF.Modifies = append(curF.Modifies, splitNames(rc.rest)...)
		case "bind":
			// bind Callee.ghost = expr: the caller chooses the value of one of the
			// callee's uninitialised ghosts (a universally quantified contract
			// parameter) at every call of Callee
			if curF == nil {
				return nil, errf(rc, "bind outside func")
			}
			eqi := strings.Index(rc.rest, "=")
			if eqi < 0 {
				return nil, errf(rc, "bind Callee.ghost = expr")
			}
			lhs := strings.TrimSpace(rc.rest[:eqi])
			dot := strings.LastIndex(lhs, ".")
			if dot < 0 {
				return nil, errf(rc, "bind Callee.ghost = expr")
			}
			if curF.Binds == nil {
				curF.Binds = map[string]map[string]string{}
			}
			cal, gh := lhs[:dot], lhs[dot+1:]
			if curF.Binds[cal] == nil {
				curF.Binds[cal] = map[string]string{}
			}
			curF.Binds[cal][gh] = strings.TrimSpace(rc.rest[eqi+1:])
		case "locals":
			// locals a b c: the identifiers the function defined, in source
			// order, when this contract was written (generated, see `govc
			// locals`).  If the code later renames some of them (same number, same
			// order) the contract is read with the new names.
			if curF == nil {
				return nil, errf(rc, "locals outside func")
			}
			curF.Locals = strings.Fields(rc.rest)
		case "deadreturn":
			// deadreturn 3 4: these return statements are unreachable by design
			if curF == nil {
				return nil, errf(rc, "deadreturn outside func")
			}
			if curF.DeadReturn == nil {
				curF.DeadReturn = map[int]bool{}
			}
			for _, n := range splitNames(rc.rest) {
				k, err := strconv.Atoi(n)
				if err != nil {
					return nil, errf(rc, "deadreturn takes return-statement ordinals")
				}
				curF.DeadReturn[k] = true
			}
		case "allocates":
			if curF == nil {
				return nil, errf(rc, "allocates outside func")
			}
			if curF.Allocates == nil {
				curF.Allocates = map[string]bool{}
			}
			for _, n := range splitNames(rc.rest) {
				curF.Allocates[n] = true
			}
		case "acquires":
			if curF == nil {
				return nil, errf(rc, "acquires outside func")
			}
			curF.Acquires = append(curF.Acquires, splitNames(rc.rest)...)
		case "lockorder":
			// lockorder A < B: B may be taken while A is held, never the reverse
			parts := strings.Split(rc.rest, "<")
			if len(parts) < 2 {
				return nil, errf(rc, "lockorder needs A < B")
			}
			for i := 0; i+1 < len(parts); i++ {
				for j := i + 1; j < len(parts); j++ {
					cf.LockOrder = append(cf.LockOrder, [2]string{strings.TrimSpace(parts[i]), strings.TrimSpace(parts[j])})
				}
			}
		case "holds":
			if curF == nil {
				return nil, errf(rc, "holds outside func")
			}
			curF.Holds = append(curF.Holds, splitNames(rc.rest)...)
		case "assigns":
			if curF == nil {
				return nil, errf(rc, "assigns outside func")
			}
			if strings.TrimSpace(rc.rest) != "none" {
				return nil, errf(rc, "only `assigns none` is supported")
			}
			curF.AssignsNone = true
		case "flows":
			if curF == nil {
				return nil, errf(rc, "flows outside func")
			}
			f := strings.SplitN(rc.rest, ":", 2)
			if len(f) != 2 {
				return nil, errf(rc, "expected: flows NAME: callee, callee")
			}
			if curF.Flows == nil {
				curF.Flows = map[string][]string{}
			}
			curF.Flows[strings.TrimSpace(f[0])] = splitNames(f[1])
		case "nilable":
			if curF == nil {
				return nil, errf(rc, "nilable outside func")
			}
			for _, n := range splitNames(rc.rest) {
				curF.Nilable[n] = true
			}
		case "use":
			if curF == nil {
				return nil, errf(rc, "use outside func")
			}
			curF.Uses = append(curF.Uses, splitNames(rc.rest)...)
		case "ghost":
			// ghost NAME TYPE [= INIT]
			rest := rc.rest
			init := ""
			if i := strings.Index(rest, "="); i >= 0 {
				init = strings.TrimSpace(rest[i+1:])
				rest = rest[:i]
			}
			f := strings.Fields(rest)
			if len(f) != 2 {
				return nil, errf(rc, "expected: ghost name type [= init]")
			}
			g := GhostVar{Name: f[0], Type: f[1], Init: init}
			if curF != nil {
				curF.Ghosts = append(curF.Ghosts, g)
			} else if curT != nil {
				curT.Ghosts = append(curT.Ghosts, g)
			} else {
				return nil, errf(rc, "ghost outside func/type")
			}
		case "nonnil":
			if curT == nil {
				return nil, errf(rc, "nonnil outside type")
			}
			for _, n := range splitNames(rc.rest) {
				curT.NonNil[n] = true
			}
		case "lock":
			if curT == nil {
				return nil, errf(rc, "lock outside type")
			}
			f := strings.SplitN(rc.rest, "protects", 2)
			if len(f) != 2 {
				return nil, errf(rc, "expected: lock FIELD protects a, b")
			}
			name := strings.TrimSpace(f[0])
			curT.Locks[name] = &LockSpec{Field: name, Protects: splitNames(f[1])}
		case "exit":
			if curF == nil {
				return nil, errf(rc, "exit outside func")
			}
			rest := rc.rest
			var props []string
			if m := reProps.FindStringSubmatch(rest); m != nil {
				props = splitNames(m[1])
				rest = rest[len(m[0]):]
			}
			rest = strings.TrimSpace(strings.TrimPrefix(strings.TrimSpace(rest), ":"))
			curF.Hooks = append(curF.Hooks, &Hook{Kind: "exit", Target: "", Body: rest, Props: props, File: path, Line: rc.line})
			curL = nil
		case "lockinv", "guarantee", "rely", "fresh":
			if curT == nil {
				return nil, errf(rc, "%s outside type", rc.kw)
			}
			var lprops []string
			if m := reProps.FindStringSubmatch(rc.rest); m != nil {
				lprops = splitNames(m[1])
				rc.rest = rc.rest[len(m[0]):]
			}
			f := strings.SplitN(rc.rest, " ", 2)
			if len(f) != 2 {
				return nil, errf(rc, "expected: %s LOCK name: expr", rc.kw)
			}
			ls := curT.Locks[f[0]]
			if ls == nil {
				return nil, errf(rc, "unknown lock %q", f[0])
			}
			c := parseClause(rc.kw, f[1], path, rc.line)
			if len(lprops) > 0 {
				c.Props = lprops
			}
			switch rc.kw {
			case "fresh":
				ls.Fresh = append(ls.Fresh, c)
			case "lockinv":
				ls.Inv = append(ls.Inv, c)
			case "guarantee":
				ls.Guarantee = append(ls.Guarantee, c)
			case "rely":
				ls.Rely = append(ls.Rely, c)
			}
		case "on":
			if curF == nil {
				return nil, errf(rc, "on outside func")
			}
			rest := rc.rest
			var props []string
			if m := reProps.FindStringSubmatch(rest); m != nil {
				props = splitNames(m[1])
				rest = rest[len(m[0]):]
			}
			m := reOnCall.FindStringSubmatch(rest)
			if m == nil {
				return nil, errf(rc, "bad on-hook: %q", rc.rest)
			}
			curF.Hooks = append(curF.Hooks, &Hook{Kind: m[1], Target: m[2], Params: splitNames(m[3]), Results: splitNames(m[4]), Body: m[5], Props: props, File: path, Line: rc.line})
			curL = nil
		case "forbids":
			// forbids label: pkg.Fn pkg.T.Method ...  - none of these is ever
			// called by the function (sugar for one `on enter X(): assert(false, label)` each)
			if curF == nil {
				return nil, errf(rc, "forbids outside func")
			}
			i := strings.Index(rc.rest, ":")
			if i < 0 {
				return nil, errf(rc, "forbids needs `label: names`")
			}
			label := strings.TrimSpace(rc.rest[:i])
			for _, n := range strings.Fields(rc.rest[i+1:]) {
				curF.Hooks = append(curF.Hooks, &Hook{Kind: "enter", Target: n, Body: fmt.Sprintf("assert(false, %q)", label), File: path, Line: rc.line})
			}
			curL = nil
		case "after", "before":
			if curF == nil {
				return nil, errf(rc, "%s outside func", rc.kw)
			}
			rest := rc.rest
			var props []string
			if m := reProps.FindStringSubmatch(rest); m != nil {
				props = splitNames(m[1])
				rest = rest[len(m[0]):]
			}
			m := reAnchor.FindStringSubmatch(rest)
			if m == nil {
				return nil, errf(rc, "bad anchor hook: %q", rc.rest)
			}
			target := m[1]
			if uq, err := strconv.Unquote(`"` + target + `"`); err == nil {
				target = uq
			}
			curF.Hooks = append(curF.Hooks, &Hook{Kind: rc.kw, Target: target, Body: m[2], Props: props, File: path, Line: rc.line})
			curL = nil
		case "loop":
			if curF == nil {
				return nil, errf(rc, "loop outside func")
			}
			f := strings.Fields(rc.rest)
			if len(f) == 0 {
				return nil, errf(rc, "loop needs a path")
			}
			curL = &LoopSpec{Path: f[0]}
			if len(f) == 3 && f[1] == "counter" {
				curL.Counter = f[2]
			}
			curF.Loops[f[0]] = curL
		case "invariant":
			if curL == nil {
				return nil, errf(rc, "invariant outside loop")
			}
			curL.Invs = append(curL.Invs, parseClause("invariant", rc.rest, path, rc.line))
		case "apply":
			if curL == nil {
				return nil, errf(rc, "apply outside loop")
			}
			curL.Applies = append(curL.Applies, &Clause{Kind: "apply", Expr: strings.TrimSpace(rc.rest), File: path, Line: rc.line})
		case "preserved":
			// preserved decoded: stored_byte0 stored_byte1 decoded
			// (the preservation of invariant `decoded` is first tried from the
			// quantifier-free context plus the named assertions/invariants)
			if curL == nil {
				return nil, errf(rc, "preserved outside loop")
			}
			ci := strings.Index(rc.rest, ":")
			if ci < 0 {
				return nil, errf(rc, "preserved label: fact ...")
			}
			if curL.From == nil {
				curL.From = map[string][]string{}
			}
			curL.From[strings.TrimSpace(rc.rest[:ci])] = strings.Fields(strings.ReplaceAll(rc.rest[ci+1:], ",", " "))
		case "hint":
			if curL == nil {
				return nil, errf(rc, "hint outside loop")
			}
			curL.Hints = append(curL.Hints, parseClause("hint", rc.rest, path, rc.line))
		case "decreases":
			if curL == nil {
				return nil, errf(rc, "decreases outside loop")
			}
			curL.Decr = parseClause("decreases", rc.rest, path, rc.line)
		}
	}
	return cf, nil
}
