package main

// smt.go - term language, sorts, SMT-LIB printing.

import (
	"sync"
	"fmt"
	"sort"
	"strings"
)

// Sorts are plain SMT-LIB sort strings.
const (
	SBool  = "Bool"
	SInt   = "Int"
	SByte  = "(_ BitVec 8)"
	SStr   = "Str"
	SSlice = "Slice"
)

func arrSort(idx, elem string) string { return "(Array " + idx + " " + elem + ")" }

// Term is an SMT term.  Quantifiers use Op "forall"/"exists" with Bound set.
type Term struct {
	Op    string
	Args  []*Term
	S     string  // sort
	Bound []*Term // bound variables (leaf terms) for quantifiers
	Pats  [][]*Term
}

func (t *Term) String() string {
	var sb strings.Builder
	t.write(&sb)
	return sb.String()
}

func (t *Term) write(sb *strings.Builder) {
	if t == nil {
		sb.WriteString("<nil>")
		return
	}
	switch t.Op {
	case "forall", "exists":
		sb.WriteString("(" + t.Op + " (")
		for i, b := range t.Bound {
			if i > 0 {
				sb.WriteByte(' ')
			}
			sb.WriteString("(" + b.Op + " " + b.S + ")")
		}
		sb.WriteString(") ")
		if len(t.Pats) > 0 {
			sb.WriteString("(! ")
			t.Args[0].write(sb)
			for _, p := range t.Pats {
				sb.WriteString(" :pattern (")
				for i, x := range p {
					if i > 0 {
						sb.WriteByte(' ')
					}
					x.write(sb)
				}
				sb.WriteString(")")
			}
			sb.WriteString(")")
		} else {
			t.Args[0].write(sb)
		}
		sb.WriteString(")")
		return
	}
	if len(t.Args) == 0 {
		sb.WriteString(t.Op)
		return
	}
	sb.WriteByte('(')
	sb.WriteString(t.Op)
	for _, a := range t.Args {
		sb.WriteByte(' ')
		a.write(sb)
	}
	sb.WriteByte(')')
}

func mk(op, s string, args ...*Term) *Term { return &Term{Op: op, S: s, Args: args} }

var (
	tTrue  = mk("true", SBool)
	tFalse = mk("false", SBool)
)

func isTrue(t *Term) bool  { return t.Op == "true" && len(t.Args) == 0 }
func isFalse(t *Term) bool { return t.Op == "false" && len(t.Args) == 0 }

func intLit(n int64) *Term {
	if n < 0 {
		return mk("-", SInt, mk(fmt.Sprint(-n), SInt))
	}
	return mk(fmt.Sprint(n), SInt)
}

func intLitStr(s string) *Term {
	if strings.HasPrefix(s, "-") {
		return mk("-", SInt, mk(s[1:], SInt))
	}
	return mk(s, SInt)
}

func byteLit(b uint8) *Term { return mk(fmt.Sprintf("#x%02x", b), SByte) }

func isIntLit(t *Term) (int64, bool) {
	if t.S != SInt {
		return 0, false
	}
	if len(t.Args) == 0 {
		var n int64
		if _, err := fmt.Sscanf(t.Op, "%d", &n); err == nil && fmt.Sprint(n) == t.Op {
			return n, true
		}
		return 0, false
	}
	if t.Op == "-" && len(t.Args) == 1 {
		if n, ok := isIntLit(t.Args[0]); ok {
			return -n, true
		}
	}
	return 0, false
}

func and(ts ...*Term) *Term {
	var out []*Term
	for _, t := range ts {
		if t == nil || isTrue(t) {
			continue
		}
		if isFalse(t) {
			return tFalse
		}
		if t.Op == "and" {
			out = append(out, t.Args...)
		} else {
			out = append(out, t)
		}
	}
	switch len(out) {
	case 0:
		return tTrue
	case 1:
		return out[0]
	}
	return mk("and", SBool, out...)
}

func or(ts ...*Term) *Term {
	var out []*Term
	for _, t := range ts {
		if t == nil || isFalse(t) {
			continue
		}
		if isTrue(t) {
			return tTrue
		}
		out = append(out, t)
	}
	switch len(out) {
	case 0:
		return tFalse
	case 1:
		return out[0]
	}
	return mk("or", SBool, out...)
}

func not(t *Term) *Term {
	if isTrue(t) {
		return tFalse
	}
	if isFalse(t) {
		return tTrue
	}
	if t.Op == "not" {
		return t.Args[0]
	}
	return mk("not", SBool, t)
}

func implies(a, b *Term) *Term {
	if isTrue(a) {
		return b
	}
	if isFalse(a) || isTrue(b) {
		return tTrue
	}
	return mk("=>", SBool, a, b)
}

func eq(a, b *Term) *Term {
	if a.S != b.S {
		panic(fmt.Sprintf("eq: sort mismatch %s:%s vs %s:%s", a, a.S, b, b.S))
	}
	if a == b {
		return tTrue
	}
	return mk("=", SBool, a, b)
}

func ite(c, a, b *Term) *Term {
	if isTrue(c) {
		return a
	}
	if isFalse(c) {
		return b
	}
	if a.S != b.S {
		panic(fmt.Sprintf("ite: sort mismatch %s:%s vs %s:%s", a, a.S, b, b.S))
	}
	return mk("ite", a.S, c, a, b)
}

func add(a, b *Term) *Term {
	if x, ok := isIntLit(a); ok {
		if y, ok := isIntLit(b); ok {
			return intLit(x + y)
		}
		if x == 0 {
			return b
		}
	}
	if y, ok := isIntLit(b); ok && y == 0 {
		return a
	}
	return mk("+", SInt, a, b)
}
func sub(a, b *Term) *Term {
	if x, ok := isIntLit(a); ok {
		if y, ok := isIntLit(b); ok {
			return intLit(x - y)
		}
	}
	if y, ok := isIntLit(b); ok && y == 0 {
		return a
	}
	return mk("-", SInt, a, b)
}
func mul(a, b *Term) *Term {
	if x, ok := isIntLit(a); ok {
		if y, ok := isIntLit(b); ok {
			return intLit(x * y)
		}
	}
	return mk("*", SInt, a, b)
}
func le(a, b *Term) *Term { return mk("<=", SBool, a, b) }
func lt(a, b *Term) *Term { return mk("<", SBool, a, b) }
func ge(a, b *Term) *Term { return mk(">=", SBool, a, b) }
func gt(a, b *Term) *Term { return mk(">", SBool, a, b) }

func sel(arr, idx *Term) *Term {
	// sort of element: parse "(Array I E)"
	return mk("select", elemSort(arr.S), arr, idx)
}
func store(arr, idx, v *Term) *Term { return mk("store", arr.S, arr, idx, v) }

// elemSort returns E for "(Array I E)".
func elemSort(s string) string {
	if !strings.HasPrefix(s, "(Array ") {
		panic("elemSort: not an array sort: " + s)
	}
	body := s[len("(Array ") : len(s)-1]
	// first component is index sort; may be parenthesised
	i := skipSort(body, 0)
	return strings.TrimSpace(body[i:])
}
func indexSort(s string) string {
	body := s[len("(Array ") : len(s)-1]
	i := skipSort(body, 0)
	return strings.TrimSpace(body[:i])
}
func skipSort(s string, i int) int {
	for i < len(s) && s[i] == ' ' {
		i++
	}
	if i < len(s) && s[i] == '(' {
		d := 0
		for ; i < len(s); i++ {
			if s[i] == '(' {
				d++
			} else if s[i] == ')' {
				d--
				if d == 0 {
					return i + 1
				}
			}
		}
		return i
	}
	for i < len(s) && s[i] != ' ' {
		i++
	}
	return i
}

func forall(bound []*Term, body *Term, pats ...[]*Term) *Term {
	if isTrue(body) {
		return tTrue
	}
	return &Term{Op: "forall", S: SBool, Bound: bound, Args: []*Term{body}, Pats: pats}
}
func exists(bound []*Term, body *Term) *Term {
	return &Term{Op: "exists", S: SBool, Bound: bound, Args: []*Term{body}}
}

// subst replaces leaf symbols by name.
func subst(t *Term, m map[string]*Term) *Term {
	if len(m) == 0 {
		return t
	}
	if len(t.Args) == 0 && t.Bound == nil {
		if r, ok := m[t.Op]; ok {
			return r
		}
		return t
	}
	m2 := m
	if t.Bound != nil {
		shadow := false
		for _, b := range t.Bound {
			if _, ok := m[b.Op]; ok {
				shadow = true
			}
		}
		if shadow {
			m2 = map[string]*Term{}
			for k, v := range m {
				m2[k] = v
			}
			for _, b := range t.Bound {
				delete(m2, b.Op)
			}
		}
	}
	changed := false
	args := make([]*Term, len(t.Args))
	for i, a := range t.Args {
		args[i] = subst(a, m2)
		if args[i] != a {
			changed = true
		}
	}
	var pats [][]*Term
	for _, p := range t.Pats {
		np := make([]*Term, len(p))
		for i, x := range p {
			np[i] = subst(x, m2)
			if np[i] != x {
				changed = true
			}
		}
		pats = append(pats, np)
	}
	if !changed {
		return t
	}
	return &Term{Op: t.Op, S: t.S, Args: args, Bound: t.Bound, Pats: pats}
}

// ---------------------------------------------------------------------
// Declarations

type FuncDecl struct {
	Name   string
	Params []string // sorts
	Res    string
	// For define-fun:
	PNames []string
	Body   *Term
}

// Decls is the symbol table of one verification context.
type Decls struct {
	mu     sync.RWMutex // discharge runs obligations of one function in parallel
	sorts  []string
	sortOK map[string]bool
	funs   []*FuncDecl
	byName map[string]*FuncDecl
	axioms []*Term // global axioms (always asserted)
	axName []string
}

func newDecls() *Decls {
	return &Decls{sortOK: map[string]bool{}, byName: map[string]*FuncDecl{}}
}

func (d *Decls) sort(name string) {
	if d.sortOK[name] {
		return
	}
	d.sortOK[name] = true
	d.sorts = append(d.sorts, name)
}

// declare registers an uninterpreted function/constant (idempotent).
func (d *Decls) declare(name string, params []string, res string) {
	d.mu.Lock()
	defer d.mu.Unlock()
	if f, ok := d.byName[name]; ok {
		if f.Res != res || len(f.Params) != len(params) {
			panic(fmt.Sprintf("redeclare %s: %v->%s vs %v->%s", name, f.Params, f.Res, params, res))
		}
		return
	}
	f := &FuncDecl{Name: name, Params: params, Res: res}
	d.byName[name] = f
	d.funs = append(d.funs, f)
	d.noteSort(res)
	for _, p := range params {
		d.noteSort(p)
	}
}

func (d *Decls) noteSort(s string) {
	// uninterpreted sorts are the bare identifiers other than builtins
	for _, tok := range strings.FieldsFunc(s, func(r rune) bool { return r == '(' || r == ')' || r == ' ' }) {
		switch tok {
		case "Bool", "Int", "Array", "_", "BitVec", "8", "Real", "32", "64", "16":
			continue
		}
		if tok[0] >= '0' && tok[0] <= '9' {
			continue
		}
		d.sort(tok)
	}
}

func (d *Decls) define(name string, pnames, psorts []string, res string, body *Term) {
	if _, ok := d.byName[name]; ok {
		panic("redefine " + name)
	}
	f := &FuncDecl{Name: name, Params: psorts, Res: res, PNames: pnames, Body: body}
	d.byName[name] = f
	d.funs = append(d.funs, f)
	d.noteSort(res)
	for _, p := range psorts {
		d.noteSort(p)
	}
}

// has reports whether a symbol has been declared.
func (d *Decls) has(name string) bool {
	d.mu.RLock()
	defer d.mu.RUnlock()
	_, ok := d.byName[name]
	return ok
}

func (d *Decls) axiom(name string, t *Term) {
	d.mu.Lock()
	defer d.mu.Unlock()
	d.axioms = append(d.axioms, t)
	d.axName = append(d.axName, name)
}

func (d *Decls) konst(name, s string) *Term {
	d.declare(name, nil, s)
	return mk(name, s)
}

func (d *Decls) app(name string, res string, args ...*Term) *Term {
	ps := make([]string, len(args))
	for i, a := range args {
		ps[i] = a.S
	}
	d.declare(name, ps, res)
	return mk(name, res, args...)
}

// prelude prints sorts, declarations, definitions, axioms.
func (d *Decls) prelude(used map[string]bool) string {
	var sb strings.Builder
	for _, s := range d.sorts {
		fmt.Fprintf(&sb, "(declare-sort %s 0)\n", s)
	}
	for _, f := range d.funs {
		if f.Body != nil {
			sb.WriteString("(define-fun " + f.Name + " (")
			for i := range f.Params {
				fmt.Fprintf(&sb, "(%s %s)", f.PNames[i], f.Params[i])
			}
			sb.WriteString(") " + f.Res + " ")
			sb.WriteString(f.Body.String())
			sb.WriteString(")\n")
			continue
		}
		if used != nil && !used[f.Name] {
			continue
		}
		fmt.Fprintf(&sb, "(declare-fun %s (%s) %s)\n", f.Name, strings.Join(f.Params, " "), f.Res)
	}
	return sb.String()
}

// collectSyms walks terms collecting operator names.
func collectSyms(t *Term, out map[string]bool) {
	if t == nil {
		return
	}
	out[t.Op] = true
	for _, a := range t.Args {
		collectSyms(a, out)
	}
	for _, p := range t.Pats {
		for _, x := range p {
			collectSyms(x, out)
		}
	}
}

// Query renders one SMT-LIB script: hyps ∧ ¬goal.
func (d *Decls) query(hyps []*Term, goal *Term, wantModel []string) string {
	return d.queryX(hyps, goal, wantModel, nil, false)
}

// queryX is query with extra terms whose values are requested after check-sat
// (projection of a counterexample onto the function's inputs).
func (d *Decls) queryX(hyps []*Term, goal *Term, wantModel []string, extra []*Term, qfOnly bool) string {
	d.mu.RLock()
	defer d.mu.RUnlock()
	used := map[string]bool{}
	for _, x := range extra {
		collectSyms(x, used)
	}
	for _, h := range hyps {
		collectSyms(h, used)
	}
	if goal != nil {
		collectSyms(goal, used)
	}
	for _, a := range d.axioms {
		collectSyms(a, used)
	}
	// definitions may use declared symbols
	for _, f := range d.funs {
		if f.Body != nil {
			collectSyms(f.Body, used)
		}
	}
	var sb strings.Builder
	sb.WriteString("(set-option :produce-models true)\n(set-logic ALL)\n")
	sb.WriteString(d.prelude(used))
	for i, a := range d.axioms {
		if qfOnly && hasQuantifier(a) {
			continue
		}
		fmt.Fprintf(&sb, "; axiom %s\n(assert %s)\n", d.axName[i], a)
	}
	for _, h := range hyps {
		fmt.Fprintf(&sb, "(assert %s)\n", h)
	}
	if goal != nil {
		fmt.Fprintf(&sb, "(assert (not %s))\n", goal)
	}
	sb.WriteString("(check-sat)\n")
	if len(wantModel) > 0 {
		var vs []string
		seen := map[string]bool{}
		for _, w := range wantModel {
			if used[w] && !seen[w] {
				seen[w] = true
				vs = append(vs, w)
			}
		}
		sort.Strings(vs)
		if len(vs) > 0 {
			fmt.Fprintf(&sb, "(get-value (%s))\n", strings.Join(vs, " "))
		}
	}
	if len(extra) > 0 {
		sb.WriteString("(echo \"PROJ\")\n")
	}
	for _, x := range extra {
		fmt.Fprintf(&sb, "(get-value (%s))\n", x)
	}
	return sb.String()
}

// smtName sanitises a Go-ish name into an SMT simple symbol.
func smtName(s string) string {
	var sb strings.Builder
	for _, r := range s {
		switch {
		case r >= 'a' && r <= 'z', r >= 'A' && r <= 'Z', r >= '0' && r <= '9', r == '_', r == '.', r == '$', r == '!':
			sb.WriteRune(r)
		case r == '/':
			sb.WriteByte('.')
		case r == '*':
			sb.WriteString("ptr.")
		case r == '[':
			sb.WriteString("_L")
		case r == ']':
			sb.WriteString("R_")
		default:
			sb.WriteString(fmt.Sprintf("_%x_", r))
		}
	}
	out := sb.String()
	if out == "" || (out[0] >= '0' && out[0] <= '9') {
		out = "n" + out
	}
	return out
}
