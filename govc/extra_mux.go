package main

// extra_mux.go - structural obligations on hsrv.(*Server).newMux (C09, C01, C07):
// the shell endpoints are registered unconditionally with constant patterns,
// the catch-all is registered iff a files source is configured.

import (
	"fmt"
	"go/ast"
	"go/constant"
	"go/token"
	"strings"
)

func init() {
	extraChecks["C09"] = append(extraChecks["C09"], func(w *World, tier string, seed int64) extraResult { return muxShape(w, "C09") })
	extraChecks["C01"] = append(extraChecks["C01"], func(w *World, tier string, seed int64) extraResult { return muxShape(w, "C01") })
	// C07: every request to /c (any method: the c2 form parameter arrives in a body) reaches scriptHandler
	extraChecks["C07"] = append(extraChecks["C07"], func(w *World, tier string, seed int64) extraResult { return muxShape(w, "C07") })
}

func muxShape(w *World, prop string) extraResult {
	var res extraResult
	mk := func(name string, ok bool, msg string) {
		ob := &Obligation{Name: "hsrv.Server.newMux/structural@" + name, Kind: "structural", Func: "hsrv.Server.newMux", Props: []string{prop}, Backend: "ast", ASTOK: ok, Solver: "ast-check"}
		if ok {
			ob.Verdict = "discharged"
		} else {
			ob.Verdict = "undischarged"
			ob.Detail = msg
		}
		res.Obligations = append(res.Obligations, ob)
	}
	u := w.unitByShort("hsrv")
	if u == nil || u.Funcs["Server.newMux"] == nil {
		mk("found", false, "hsrv.(*Server).newMux not found")
		return res
	}
	fd := u.Funcs["Server.newMux"]
	info := u.Pkg.TypesInfo
	type reg struct {
		pattern, handler string
		cond            string
	}
	var regs []reg
	var walk func(stmts []ast.Stmt, cond string)
	walk = func(stmts []ast.Stmt, cond string) {
		for _, s := range stmts {
			switch x := s.(type) {
			case *ast.ExprStmt:
				call, ok := x.X.(*ast.CallExpr)
				if !ok {
					continue
				}
				sel, ok := call.Fun.(*ast.SelectorExpr)
				if !ok || (sel.Sel.Name != "HandleFunc" && sel.Sel.Name != "Handle") || len(call.Args) != 2 {
					continue
				}
				pat := "?"
				if tv, ok := info.Types[call.Args[0]]; ok && tv.Value != nil && tv.Value.Kind() == constant.String {
					pat = constant.StringVal(tv.Value)
				}
				regs = append(regs, reg{pat, exprText(call.Args[1]), cond})
			case *ast.IfStmt:
				c := exprText(x.Cond)
				if x.Init != nil {
					c = "<init>;" + c
				}
				walk(x.Body.List, strings.TrimSpace(cond+" "+c))
				if x.Else != nil {
					if b, ok := x.Else.(*ast.BlockStmt); ok {
						walk(b.List, strings.TrimSpace(cond+" !("+c+")"))
					}
				}
			case *ast.BlockStmt:
				walk(x.List, cond)
			case *ast.ForStmt, *ast.RangeStmt, *ast.SwitchStmt:
				walk(nil, cond)
				regs = append(regs, reg{"?", "registration inside loop/switch", "?"})
			}
		}
	}
	walk(fd.Body.List, "")
	want := map[string]string{"/i/{id}": "s.inputHandler", "/o/{id}": "s.outputHandler", "/io": "s.inOutHandler", "/io/": "s.inOutHandler", "/c": "s.scriptHandler"}
	seen := map[string]bool{}
	for _, r := range regs {
		if h, ok := want[r.pattern]; ok {
			mk("shell_endpoint "+r.pattern, r.handler == h && r.cond == "", fmt.Sprintf("pattern %q registered to %s under condition %q; want %s unconditionally", r.pattern, r.handler, r.cond, h))
			seen[r.pattern] = true
		} else if r.pattern == "/" {
			okc := r.handler == "s.fileHandler" && (r.cond == `"" != s.fdir` || r.cond == `s.fdir != ""`)
			mk("catch_all_iff_files_configured", okc, fmt.Sprintf("catch-all registered to %s under condition %q; want s.fileHandler iff s.fdir is set", r.handler, r.cond))
			seen["/"] = true
		} else {
			mk("no_other_pattern "+r.pattern, false, fmt.Sprintf("unexpected registration %q -> %s (could shadow a shell endpoint or expose files)", r.pattern, r.handler))
		}
	}
	for p := range want {
		if !seen[p] {
			mk("shell_endpoint "+p, false, "pattern "+p+" is not registered")
		}
	}
	if !seen["/"] {
		mk("catch_all_iff_files_configured", false, "no catch-all registration for static files")
	}
	res.Trusted = append(res.Trusted, "net/http.ServeMux routes a request to the most specific registered pattern and sets the {id} path value")
	_ = token.NoPos
	return res
}
