package main

// expr.go - expression evaluation (code and spec expressions share this).

import (
	"fmt"
	"go/ast"
	"go/constant"
	"go/token"
	"go/types"
	"math/big"
	"strconv"
	"strings"
)

// evalMode flags.
type evalCtx struct {
	spec bool // spec expression: no safety obligations, names resolved by text
}

func (ex *Exec) inSpec() bool { return ex.specDepth > 0 }

// constVal turns a typed/untyped constant into a Val.
func (ex *Exec) constVal(cv constant.Value, t types.Type) *Val {
	if b, ok := t.Underlying().(*types.Basic); ok && b.Info()&types.IsUntyped != 0 {
		return &Val{T: t, Const: cv}
	}
	return ex.materialize(&Val{T: t, Const: cv}, t)
}

// materialize gives an untyped constant a concrete term of type t.
func (ex *Exec) materialize(v *Val, t types.Type) *Val {
	if v.Const == nil {
		return v
	}
	if t == nil {
		t = v.T
	}
	if b, ok := t.Underlying().(*types.Basic); ok && b.Info()&types.IsUntyped != 0 {
		t = types.Default(t)
	}
	if _, ok := t.Underlying().(*types.Interface); ok {
		// box the default-typed constant
		dv := ex.materialize(v, types.Default(v.T))
		return dv
	}
	cv := v.Const
	switch ex.sortOf(t) {
	case SBool:
		if constant.BoolVal(cv) {
			return &Val{T: t, Term: tTrue}
		}
		return &Val{T: t, Term: tFalse}
	case SInt:
		iv := constant.ToInt(cv)
		if iv.Kind() != constant.Int {
			return &Val{T: t, Term: ex.fresh("floatconst", SInt)}
		}
		return &Val{T: t, Term: intLitStr(iv.ExactString())}
	case SByte:
		iv := constant.ToInt(cv)
		n, _ := constant.Int64Val(iv)
		return &Val{T: t, Term: byteLit(uint8(n))}
	case SStr:
		if cv.Kind() == constant.String {
			return &Val{T: t, Term: ex.strLit(constant.StringVal(cv))}
		}
	}
	return &Val{T: t, Term: ex.fresh("const", ex.sortOf(t))}
}

func isUntypedConst(v *Val) bool { return v != nil && v.Const != nil && v.Term == nil }

// unify materializes untyped constants against the other operand.
func (ex *Exec) unify(x, y *Val) (*Val, *Val) {
	if isUntypedConst(x) && !isUntypedConst(y) && y.T != nil {
		x = ex.materialize(x, y.T)
	} else if isUntypedConst(y) && !isUntypedConst(x) && x.T != nil {
		y = ex.materialize(y, x.T)
	} else if isUntypedConst(x) && isUntypedConst(y) {
		x = ex.materialize(x, nil)
		y = ex.materialize(y, x.T)
	}
	return x, y
}

func pow2(k int64) *Term {
	z := new(big.Int).Lsh(big.NewInt(1), uint(k))
	return intLitStr(z.String())
}

// goDiv / goMod: Go's truncated division.
func (ex *Exec) goDiv(a, b *Term) *Term {
	if c, ok := isIntLit(b); ok && c > 0 {
		if x, ok := isIntLit(a); ok {
			return intLit(x / c)
		}
		return ite(ge(a, intLit(0)), mk("div", SInt, a, b), mk("-", SInt, mk("div", SInt, mk("-", SInt, a), b)))
	}
	ex.ensureGoDiv()
	return mk("go.div", SInt, a, b)
}

func (ex *Exec) goMod(a, b *Term) *Term {
	if c, ok := isIntLit(b); ok && c > 0 {
		if x, ok := isIntLit(a); ok {
			return intLit(x % c)
		}
		return ite(ge(a, intLit(0)), mk("mod", SInt, a, b), mk("-", SInt, mk("mod", SInt, mk("-", SInt, a), b)))
	}
	ex.ensureGoDiv()
	return sub(a, mul(b, mk("go.div", SInt, a, b)))
}

func (ex *Exec) ensureGoDiv() {
	if ok := ex.D.has("go.div"); ok {
		return
	}
	a, b := mk("a", SInt), mk("b", SInt)
	neg := func(t *Term) *Term { return mk("-", SInt, t) }
	body := ite(ge(a, intLit(0)),
		ite(gt(b, intLit(0)), mk("div", SInt, a, b), neg(mk("div", SInt, a, neg(b)))),
		ite(gt(b, intLit(0)), neg(mk("div", SInt, neg(a), b)), mk("div", SInt, neg(a), neg(b))))
	ex.D.define("go.div", []string{"a", "b"}, []string{SInt, SInt}, SInt, body)
}

// b2i: byte -> int (exact).
func (ex *Exec) b2i(b *Term) *Term {
	if len(b.Args) == 0 && strings.HasPrefix(b.Op, "#x") {
		n, _ := strconv.ParseInt(b.Op[2:], 16, 64)
		return intLit(n)
	}
	if ok := ex.D.has("b2i"); !ok {
		x := mk("x", SByte)
		var sum *Term = intLit(0)
		for i := 0; i < 8; i++ {
			bit := mk(fmt.Sprintf("(_ extract %d %d)", i, i), "(_ BitVec 1)", x)
			sum = mk("+", SInt, sum, ite(mk("=", SBool, bit, mk("#b1", "(_ BitVec 1)")), intLit(1<<uint(i)), intLit(0)))
		}
		ex.D.define("b2i", []string{"x"}, []string{SByte}, SInt, sum)
	}
	return mk("b2i", SInt, b)
}

// i2b: int -> byte (wraps).
func (ex *Exec) i2b(i *Term) *Term {
	if n, ok := isIntLit(i); ok {
		return byteLit(uint8(n))
	}
	if ok := ex.D.has("i2b"); !ok {
		ex.b2i(mk("x", SByte)) // ensure b2i
		ex.D.declare("i2b", []string{SInt}, SByte)
		v := mk("i?", SInt)
		app := mk("i2b", SByte, v)
		ex.D.axiom("i2b.def", forall([]*Term{v}, eq(mk("b2i", SInt, app), mk("mod", SInt, v, intLit(256))), []*Term{app}))
	}
	return mk("i2b", SByte, i)
}

func (ex *Exec) binop(st *State, op token.Token, x, y *Val, pos token.Pos) *Val {
	if op == token.SHL || op == token.SHR {
		// shift count has its own type
		if isUntypedConst(x) {
			x = ex.materialize(x, nil)
		}
		if isUntypedConst(y) {
			y = ex.materialize(y, tInt)
		}
	} else {
		x, y = ex.unify(x, y)
	}
	if isUntypedConst(x) && isUntypedConst(y) {
		x, y = ex.materialize(x, nil), ex.materialize(y, nil)
	}
	srt := ex.sortOf(x.T)
	a, b := x.Term, y.Term
	if a == nil || b == nil {
		panic(fmt.Sprintf("%s: binop %s on non-term values (%v, %v)", ex.posStr(pos), op, x.T, y.T))
	}
	bv := func(t *Term) *Val { return &Val{T: tBool, Term: t} }
	cmpRes := func() *Val { return nil }
	_ = cmpRes
	switch op {
	case token.EQL, token.NEQ:
		var t *Term
		if a.S != b.S {
			// comparing interface with concrete non-ref value: box-compare is opaque
			t = ex.fresh("cmp", SBool)
		} else if srt == SSlice {
			// only comparison with nil is legal
			if b.Op == "s.nil" {
				t = eq(ex.sRef(a), intLit(0))
			} else if a.Op == "s.nil" {
				t = eq(ex.sRef(b), intLit(0))
			} else {
				t = eq(a, b)
			}
		} else {
			t = eq(a, b)
		}
		if op == token.NEQ {
			t = not(t)
		}
		return bv(t)
	case token.LAND:
		return bv(and(a, b))
	case token.LOR:
		return bv(or(a, b))
	}
	switch srt {
	case SInt:
		switch op {
		case token.ADD:
			return &Val{T: x.T, Term: add(a, b)}
		case token.SUB:
			return &Val{T: x.T, Term: sub(a, b)}
		case token.MUL:
			return &Val{T: x.T, Term: mul(a, b)}
		case token.QUO:
			if !ex.inSpec() {
				if c, ok := isIntLit(b); !ok || c == 0 {
					ex.safetyOb(st, "div0", pos, not(eq(b, intLit(0))))
				}
			}
			return &Val{T: x.T, Term: ex.goDiv(a, b)}
		case token.REM:
			if !ex.inSpec() {
				if c, ok := isIntLit(b); !ok || c == 0 {
					ex.safetyOb(st, "div0", pos, not(eq(b, intLit(0))))
				}
			}
			return &Val{T: x.T, Term: ex.goMod(a, b)}
		case token.AND:
			if c, ok := isIntLit(b); ok && c >= 0 && (c+1)&c == 0 {
				return &Val{T: x.T, Term: mk("mod", SInt, a, intLit(c+1))}
			}
			if c, ok := isIntLit(a); ok && c >= 0 && (c+1)&c == 0 {
				return &Val{T: x.T, Term: mk("mod", SInt, b, intLit(c+1))}
			}
			if c, ok := isIntLit(b); ok && c > 0 && c&(c-1) == 0 {
				// single-bit test: (a div c) mod 2 * c
				return &Val{T: x.T, Term: mul(mk("mod", SInt, mk("div", SInt, a, intLit(c)), intLit(2)), intLit(c))}
			}
			if c, ok := isIntLit(a); ok && c > 0 && c&(c-1) == 0 {
				return &Val{T: x.T, Term: mul(mk("mod", SInt, mk("div", SInt, b, intLit(c)), intLit(2)), intLit(c))}
			}
		case token.OR, token.XOR:
			// constant folding only (flag words such as os.O_CREATE|os.O_APPEND)
			if ca, ok := isIntLit(a); ok && ca >= 0 {
				if cb, ok := isIntLit(b); ok && cb >= 0 {
					if op == token.OR {
						return &Val{T: x.T, Term: intLit(ca | cb)}
					}
					return &Val{T: x.T, Term: intLit(ca ^ cb)}
				}
			}
		case token.SHL:
			if c, ok := isIntLit(b); ok && c >= 0 && c < 63 {
				return &Val{T: x.T, Term: mul(a, pow2(c))}
			}
		case token.SHR:
			if c, ok := isIntLit(b); ok && c >= 0 && c < 63 {
				return &Val{T: x.T, Term: mk("div", SInt, a, pow2(c))}
			}
		case token.LSS:
			return bv(lt(a, b))
		case token.LEQ:
			return bv(le(a, b))
		case token.GTR:
			return bv(gt(a, b))
		case token.GEQ:
			return bv(ge(a, b))
		}
		ex.unsupported(pos, "integer operator "+op.String())
		return &Val{T: x.T, Term: ex.fresh("intop", SInt)}
	case SByte:
		if b.S == SInt { // shift count
			if c, ok := isIntLit(b); ok && c >= 0 && c < 256 {
				b = byteLit(uint8(c))
			} else {
				b = ex.i2b(b)
			}
		}
		bin := func(o string) *Val { return &Val{T: x.T, Term: mk(o, SByte, a, b)} }
		switch op {
		case token.ADD:
			return bin("bvadd")
		case token.SUB:
			return bin("bvsub")
		case token.MUL:
			return bin("bvmul")
		case token.QUO:
			if !ex.inSpec() {
				ex.safetyOb(st, "div0", pos, not(eq(b, byteLit(0))))
			}
			return bin("bvudiv")
		case token.REM:
			if !ex.inSpec() {
				ex.safetyOb(st, "div0", pos, not(eq(b, byteLit(0))))
			}
			return bin("bvurem")
		case token.AND:
			return bin("bvand")
		case token.OR:
			return bin("bvor")
		case token.XOR:
			return bin("bvxor")
		case token.AND_NOT:
			return &Val{T: x.T, Term: mk("bvand", SByte, a, mk("bvnot", SByte, b))}
		case token.SHL:
			return bin("bvshl")
		case token.SHR:
			return bin("bvlshr")
		case token.LSS:
			return bv(mk("bvult", SBool, a, b))
		case token.LEQ:
			return bv(mk("bvule", SBool, a, b))
		case token.GTR:
			return bv(mk("bvugt", SBool, a, b))
		case token.GEQ:
			return bv(mk("bvuge", SBool, a, b))
		}
	case SStr:
		switch op {
		case token.ADD:
			return &Val{T: x.T, Term: ex.strCat(a, b)}
		case token.LSS:
			return bv(ex.D.app("st.lt", SBool, a, b))
		case token.GTR:
			return bv(ex.D.app("st.lt", SBool, b, a))
		case token.LEQ:
			return bv(not(ex.D.app("st.lt", SBool, b, a)))
		case token.GEQ:
			return bv(not(ex.D.app("st.lt", SBool, a, b)))
		}
	}
	ex.unsupported(pos, fmt.Sprintf("operator %s on %s", op, srt))
	return &Val{T: x.T, Term: ex.fresh("op", srt)}
}

// underGuard evaluates f with g pushed on the path condition; afterwards g
// is removed and every fact f added is kept as (g => fact).
func (ex *Exec) underGuard(st *State, g *Term, f func() *Val) *Val {
	n := len(st.pc)
	st.pc = append(st.pc, g)
	v := f()
	rest := append([]*Term(nil), st.pc[n+1:]...)
	st.pc = st.pc[:n:n]
	for _, r := range rest {
		st.pc = append(st.pc, implies(g, r))
	}
	return v
}

// safetyOb emits a zero-annotation safety obligation (bounds, nil, div0).
func (ex *Exec) safetyOb(st *State, kind string, pos token.Pos, goal *Term) {
	if !ex.safety || ex.inSpec() {
		return
	}
	ex.oblige(st, kind, ex.anchorFor(pos), pos, goal, nil)
}

// anchorFor gives a stable-ish anchor for a source position: the source
// text of the enclosing node is not available cheaply, so use
// line-relative-to-function plus column-free ordinal.
func (ex *Exec) anchorFor(pos token.Pos) string {
	if !pos.IsValid() {
		return "?"
	}
	key := ex.nodeText(pos)
	return key
}

func (ex *Exec) isNilVal(v *Val) bool {
	if v == nil || v.T == nil {
		return false
	}
	b, ok := v.T.(*types.Basic)
	return ok && b.Kind() == types.UntypedNil
}

// coerce converts v for assignment to a location of type target.
func (ex *Exec) coerce(st *State, v *Val, target types.Type) *Val {
	if v == nil || target == nil {
		return v
	}
	if v.Tuple != nil {
		return v
	}
	if ex.isNilVal(v) {
		z := ex.zero(target)
		return z
	}
	if v.Boxed {
		if _, isPtr := target.Underlying().(*types.Pointer); !isPtr {
			nv := *v
			nv.Boxed = false
			v = ex.deref(st, &nv, token.NoPos)
		}
	}
	if isUntypedConst(v) {
		if _, isIface := target.Underlying().(*types.Interface); isIface {
			v = ex.materialize(v, nil)
		} else {
			return ex.materialize(v, target)
		}
	}
	if v.Term == nil {
		// closure / function value
		nv := *v
		nv.T = target
		if nv.Lit != nil || nv.Fn != nil {
			return &nv
		}
		return &nv
	}
	if _, isTP := target.(*types.TypeParam); isTP {
		return v
	}
	ts := ex.sortOf(target)
	if v.Term.S == ts {
		if v.T != nil && types.Identical(v.T, target) {
			return v
		}
		nv := *v
		nv.T = target
		return &nv
	}
	if _, isIface := target.Underlying().(*types.Interface); isIface {
		// box a non-reference value into an interface
		r := ex.fresh("box", SInt)
		st.assume(gt(r, intLit(0)))
		st.assume(eq(ex.D.app("unbox$"+smtName(v.Term.S), v.Term.S, r), v.Term))
		st.assume(eq(ex.D.app("dyntype", SInt, r), intLit(int64(ex.fieldID("type:"+typeKey(v.T))))))
		return &Val{T: target, Term: r, Note: "boxed " + shortType(v.T)}
	}
	if ts == SInt && v.Term.S == SByte {
		return &Val{T: target, Term: ex.b2i(v.Term)}
	}
	if ts == SByte && v.Term.S == SInt {
		return &Val{T: target, Term: ex.i2b(v.Term)}
	}
	// unknown coercion: opaque
	return &Val{T: target, Term: ex.fresh("coerce", ts)}
}

// ---------------------------------------------------------------------

func (ex *Exec) expr(st *State, e ast.Expr) *Val {
	switch e := e.(type) {
	case *ast.ParenExpr:
		return ex.expr(st, e.X)
	case *ast.BasicLit:
		if !ex.inSpec() {
			if tv, ok := ex.Info.Types[e]; ok && tv.Value != nil {
				return ex.constVal(tv.Value, tv.Type)
			}
		}
		cv := constant.MakeFromLiteral(e.Value, e.Kind, 0)
		var t types.Type
		switch e.Kind {
		case token.INT:
			t = types.Typ[types.UntypedInt]
		case token.CHAR:
			t = types.Typ[types.UntypedRune]
		case token.STRING:
			t = types.Typ[types.UntypedString]
		case token.FLOAT:
			t = types.Typ[types.UntypedFloat]
		default:
			t = types.Typ[types.UntypedInt]
		}
		return &Val{T: t, Const: cv}
	case *ast.Ident:
		return ex.ident(st, e)
	case *ast.BinaryExpr:
		if !ex.inSpec() {
			if tv, ok := ex.Info.Types[e]; ok && tv.Value != nil {
				return ex.constVal(tv.Value, tv.Type)
			}
		}
		x := ex.expr(st, e.X)
		if e.Op == token.LAND || e.Op == token.LOR {
			// short circuit: evaluate Y under the guard; obligations and
			// facts produced while evaluating Y are guarded by it.
			x = ex.materialize(x, tBool)
			g := x.Term
			if e.Op == token.LOR {
				g = not(g)
			}
			y := ex.underGuard(st, g, func() *Val { return ex.expr(st, e.Y) })
			return ex.binop(st, e.Op, x, y, e.OpPos)
		}
		y := ex.expr(st, e.Y)
		return ex.binop(st, e.Op, x, y, e.OpPos)
	case *ast.UnaryExpr:
		if !ex.inSpec() {
			if tv, ok := ex.Info.Types[e]; ok && tv.Value != nil {
				return ex.constVal(tv.Value, tv.Type)
			}
		}
		switch e.Op {
		case token.AND:
			return ex.addrOf(st, e)
		case token.ARROW:
			vs := ex.recv(st, e.X, e.Pos())
			return vs[0]
		}
		x := ex.expr(st, e.X)
		switch e.Op {
		case token.NOT:
			x = ex.materialize(x, tBool)
			return &Val{T: tBool, Term: not(x.Term)}
		case token.SUB:
			if isUntypedConst(x) {
				return &Val{T: x.T, Const: constant.UnaryOp(token.SUB, x.Const, 0)}
			}
			if x.Term.S == SInt {
				return &Val{T: x.T, Term: sub(intLit(0), x.Term)}
			}
			if x.Term.S == SByte {
				return &Val{T: x.T, Term: mk("bvneg", SByte, x.Term)}
			}
		case token.ADD:
			return x
		case token.XOR:
			if x.Term != nil && x.Term.S == SByte {
				return &Val{T: x.T, Term: mk("bvnot", SByte, x.Term)}
			}
		}
		ex.unsupported(e.Pos(), "unary "+e.Op.String())
		return &Val{T: x.T, Term: ex.fresh("unop", ex.sortOf(x.T))}
	case *ast.CallExpr:
		vs := ex.call(st, e)
		if len(vs) == 1 {
			return vs[0]
		}
		return &Val{Tuple: vs}
	case *ast.IndexExpr:
		return ex.index(st, e)
	case *ast.SliceExpr:
		return ex.sliceExpr(st, e)
	case *ast.SelectorExpr:
		return ex.selector(st, e)
	case *ast.StarExpr:
		p := ex.expr(st, e.X)
		return ex.deref(st, p, e.Pos())
	case *ast.CompositeLit:
		return ex.compositeLit(st, e, false)
	case *ast.FuncLit:
		return &Val{T: ex.typeOf(e), Lit: e, LitEx: ex}
	case *ast.TypeAssertExpr:
		vs := ex.typeAssert(st, e, false)
		return vs[0]
	case *ast.KeyValueExpr:
		return ex.expr(st, e.Value)
	}
	ex.unsupported(e.Pos(), fmt.Sprintf("expression %T", e))
	return &Val{T: ex.typeOf(e), Term: ex.fresh("expr", ex.sortOf(ex.typeOf(e)))}
}

func (ex *Exec) typeOf(e ast.Expr) types.Type {
	if tv, ok := ex.Info.Types[e]; ok {
		return tv.Type
	}
	if id, ok := e.(*ast.Ident); ok {
		if o := ex.Info.ObjectOf(id); o != nil {
			return o.Type()
		}
	}
	return nil
}

// globalName is the heap key for a package-level variable.
func globalName(o types.Object) string {
	p := ""
	if o.Pkg() != nil {
		p = o.Pkg().Path()
	}
	return "G$" + smtName(p+"."+o.Name())
}

func (ex *Exec) readGlobal(st *State, o types.Object) *Val {
	name := globalName(o)
	t := ex.heap(st, name, ex.sortOf(o.Type()))
	v := &Val{T: o.Type(), Term: t}
	if st.specDef == nil {
		ex.wf(st, v)
		if isRefLike(o.Type()) {
			// package-level values exist before the verified call starts
			st.assume(lt(t, ex.D.konst("$alloc@0", SInt)))
		}
	}
	if _, isMap := o.Type().Underlying().(*types.Map); isMap && st.specDef == nil {
		ex.roMapFacts(st, o, t)
	}
	// package-level error sentinels and similar are non-nil
	if isRefLike(o.Type()) {
		if types.Identical(o.Type(), tErr) && (strings.HasPrefix(o.Name(), "Err") || strings.HasPrefix(o.Name(), "err") || o.Name() == "EOF") {
			st.assume(gt(t, intLit(0)))
		}
	}
	return v
}

func (ex *Exec) ident(st *State, id *ast.Ident) *Val {
	if ex.inSpec() {
		return ex.specIdent(st, id)
	}
	obj := ex.Info.ObjectOf(id)
	switch o := obj.(type) {
	case *types.Const:
		return ex.constVal(o.Val(), ex.typeOfConstUse(id, o))
	case *types.Nil:
		return &Val{T: types.Typ[types.UntypedNil], Term: intLit(0)}
	case *types.Func:
		return &Val{T: o.Type(), Fn: o}
	case *types.Var:
		if o.IsField() {
			break
		}
		if o.Parent() == o.Pkg().Scope() {
			return ex.readGlobal(st, o)
		}
		if v, ok := st.vars[o]; ok {
			return v
		}
		// captured or otherwise unknown local: fresh symbolic
		v := ex.freshVal(st, o.Name(), o.Type())
		st.vars[o] = v
		st.names[o.Name()] = o
		return v
	case *types.Builtin:
		return &Val{Note: "builtin:" + o.Name()}
	case *types.TypeName:
		return &Val{T: o.Type(), Note: "type"}
	}
	if id.Name == "_" {
		return &Val{T: tAny, Term: ex.fresh("blank", SInt)}
	}
	ex.unsupported(id.Pos(), "identifier "+id.Name)
	return &Val{T: ex.typeOf(id), Term: ex.fresh(id.Name, ex.sortOf(ex.typeOf(id)))}
}

func (ex *Exec) typeOfConstUse(id *ast.Ident, o *types.Const) types.Type {
	if tv, ok := ex.Info.Types[id]; ok && tv.Type != nil {
		return tv.Type
	}
	return o.Type()
}

// freshVal makes a fresh symbolic value of a type (with its type invariant).
func (ex *Exec) freshVal(st *State, name string, t types.Type) *Val {
	if tup, ok := t.(*types.Tuple); ok {
		var vs []*Val
		for i := 0; i < tup.Len(); i++ {
			vs = append(vs, ex.freshVal(st, fmt.Sprintf("%s.%d", name, i), tup.At(i).Type()))
		}
		return &Val{Tuple: vs}
	}
	v := &Val{T: t, Term: ex.fresh(name, ex.sortOf(t))}
	ex.wf(st, v)
	return v
}

// ---------------------------------------------------------------------
// selectors, fields, pointers

func derefType(t types.Type) (types.Type, bool) {
	if p, ok := t.Underlying().(*types.Pointer); ok {
		return p.Elem(), true
	}
	return t, false
}

// fieldStep reads field f of cur (struct value or pointer to struct).
func (ex *Exec) fieldStep(st *State, cur *Val, f *types.Var, pos token.Pos) *Val {
	base, isPtr := derefType(cur.T)
	if isPtr {
		ex.nilCheck(st, cur, pos, "field "+f.Name())
		t := ex.readField(st, cur.Term, base, f.Name(), f.Type())
		v := &Val{T: f.Type(), Term: t, Note: "field:" + f.Name()}
		ex.fieldReadFacts(st, base, f, v, cur.Term)
		return v
	}
	v := &Val{T: f.Type(), Term: ex.fieldOfVal(cur, f)}
	ex.wf(st, v)
	return v
}

// fieldReadFacts assumes type invariants at a heap read.
// The nonnil invariant is not assumed for an object this very function is
// still constructing (it is an obligation when the object is returned).
func (ex *Exec) fieldReadFacts(st *State, structT types.Type, f *types.Var, v *Val, ref *Term) {
	ex.wf(st, v)
	if ts := ex.typeSpecFor(structT); ts != nil && ts.NonNil[f.Name()] && isRefLike(f.Type()) {
		if ex.entryAlloc == nil {
			st.assume(gt(v.Term, intLit(0)))
			return
		}
		lit := ex.readField(st, ref, structT, "$lit", types.Typ[types.Bool])
		st.assume(implies(not(and(lit, ge(ref, ex.entryAlloc))), gt(v.Term, intLit(0))))
	}
}

func (ex *Exec) typeSpecFor(t types.Type) *TypeSpec {
	n, ok := t.(*types.Named)
	if !ok {
		return nil
	}
	if n.Obj().Pkg() == nil {
		return nil
	}
	u := ex.W.Units[n.Obj().Pkg().Path()]
	if u == nil {
		return nil
	}
	return u.TSpecs[n.Obj().Name()]
}

func (ex *Exec) nilCheck(st *State, v *Val, pos token.Pos, what string) {
	if ex.inSpec() || v.Term == nil {
		return
	}
	if v.Term.S != SInt {
		return
	}
	ex.safetyOb(st, "nil", pos, not(eq(v.Term, intLit(0))))
	// after the check the path continues with the fact (a nil deref panics)
	st.assume(not(eq(v.Term, intLit(0))))
}

func (ex *Exec) selector(st *State, e *ast.SelectorExpr) *Val {
	if ex.inSpec() {
		return ex.specSelector(st, e)
	}
	// qualified identifier?
	if id, ok := e.X.(*ast.Ident); ok {
		if _, isPkg := ex.Info.ObjectOf(id).(*types.PkgName); isPkg {
			obj := ex.Info.ObjectOf(e.Sel)
			switch o := obj.(type) {
			case *types.Const:
				t := o.Type()
				if tv, ok := ex.Info.Types[e]; ok && tv.Type != nil {
					t = tv.Type
				}
				return ex.constVal(o.Val(), t)
			case *types.Var:
				return ex.readGlobal(st, o)
			case *types.Func:
				return &Val{T: o.Type(), Fn: o}
			case *types.TypeName:
				return &Val{T: o.Type(), Note: "type"}
			}
		}
	}
	selInfo := ex.Info.Selections[e]
	if selInfo == nil {
		ex.unsupported(e.Pos(), "selector without selection info")
		return &Val{T: ex.typeOf(e), Term: ex.fresh("sel", ex.sortOf(ex.typeOf(e)))}
	}
	cur := ex.expr(st, e.X)
	idx := selInfo.Index()
	// walk embedded fields
	for i := 0; i < len(idx)-1; i++ {
		base, _ := derefType(cur.T)
		s := base.Underlying().(*types.Struct)
		cur = ex.fieldStep(st, cur, s.Field(idx[i]), e.Pos())
	}
	switch selInfo.Kind() {
	case types.FieldVal:
		base, _ := derefType(cur.T)
		s := base.Underlying().(*types.Struct)
		f := s.Field(idx[len(idx)-1])
		ex.guardedAccess(st, cur, base, f.Name(), e.Pos())
		return ex.fieldStep(st, cur, f, e.Pos())
	case types.MethodVal:
		fn := selInfo.Obj().(*types.Func)
		return &Val{T: selInfo.Type(), Fn: fn, Recv: cur}
	case types.MethodExpr:
		fn := selInfo.Obj().(*types.Func)
		return &Val{T: selInfo.Type(), Fn: fn}
	}
	return &Val{T: ex.typeOf(e), Term: ex.fresh("sel", ex.sortOf(ex.typeOf(e)))}
}

// addrOf handles &x.
func (ex *Exec) addrOf(st *State, e *ast.UnaryExpr) *Val {
	t := ex.typeOf(e)
	x := e.X
	for {
		if p, ok := x.(*ast.ParenExpr); ok {
			x = p.X
			continue
		}
		break
	}
	switch x := x.(type) {
	case *ast.CompositeLit:
		return ex.compositeLit(st, x, true)
	case *ast.Ident:
		if ex.inSpec() {
			if o, ok := st.names[x.Name]; ok {
				if v, ok := st.vars[o]; ok && v.Boxed {
					nv := *v
					nv.Boxed = false
					return &nv
				}
			}
		}
		if !ex.inSpec() {
			if o := ex.Info.ObjectOf(x); o != nil && ex.boxed[o] {
				if v, ok := st.vars[o]; ok && v.Boxed {
					nv := *v
					nv.Boxed = false
					return &nv
				}
			}
		}
	case *ast.SelectorExpr:
		if ex.inSpec() {
			recv := ex.expr(st, x.X)
			base, isPtr := derefType(recv.T)
			if isPtr {
				if s, ok := base.Underlying().(*types.Struct); ok {
					for i := 0; i < s.NumFields(); i++ {
						if s.Field(i).Name() == x.Sel.Name {
							id := ex.fieldID(ex.fieldHeapName(base, x.Sel.Name))
							return &Val{T: types.NewPointer(s.Field(i).Type()), Term: ex.fpMk(recv.Term, intLit(int64(id)))}
						}
					}
				}
			}
			break
		}
		if selInfo := ex.Info.Selections[x]; selInfo != nil && selInfo.Kind() == types.FieldVal && len(selInfo.Index()) == 1 {
			recv := ex.expr(st, x.X)
			base, isPtr := derefType(recv.T)
			if isPtr {
				ex.nilCheck(st, recv, e.Pos(), "address of field")
				id := ex.fieldID(ex.fieldHeapName(base, x.Sel.Name))
				if _, isStruct := selInfo.Obj().Type().Underlying().(*types.Struct); !isStruct {
					return &Val{T: t, Term: ex.fpMk(recv.Term, intLit(int64(id)))}
				}
				// struct-typed field: the pointer has an identity (same field of
				// the same object gives the same pointer) but its target is not
				// connected to the parent's field value
				ex.W.Unsup[ex.posStr(e.Pos())+": address of a struct-typed field: identity only, contents opaque"] = true
				p := ex.fpMk(recv.Term, intLit(int64(id)))
				st.assume(gt(p, intLit(0)))
				return &Val{T: t, Term: p}
			}
		}
	}
	// address of a local or something else: opaque non-nil pointer
	if !ex.inSpec() {
		ex.W.Unsup[ex.posStr(e.Pos())+": address-of modelled as opaque pointer"] = true
	}
	r := ex.newRef(st)
	return &Val{T: t, Term: r}
}

func (ex *Exec) fpMk(ref, fid *Term) *Term {
	if ok := ex.D.has("fp.mk"); !ok {
		ex.D.declare("fp.mk", []string{SInt, SInt}, SInt)
		ex.D.declare("fp.ref", []string{SInt}, SInt)
		ex.D.declare("fp.fid", []string{SInt}, SInt)
		r, f := mk("r?", SInt), mk("f?", SInt)
		app := mk("fp.mk", SInt, r, f)
		ex.D.axiom("fp.mk", forall([]*Term{r, f}, and(eq(mk("fp.ref", SInt, app), r), eq(mk("fp.fid", SInt, app), f), implies(gt(r, intLit(0)), gt(app, intLit(0)))), []*Term{app}))
	}
	return mk("fp.mk", SInt, ref, fid)
}

// candidateFields lists struct fields (in loaded repo packages) whose type is identical to t.
func (ex *Exec) candidateFields(t types.Type) (out []struct {
	structT types.Type
	f       *types.Var
}) {
	taken := ex.W.addrTakenFields()
	for _, u := range ex.W.Units {
		scope := u.Pkg.Types.Scope()
		for _, n := range scope.Names() {
			tn, ok := scope.Lookup(n).(*types.TypeName)
			if !ok {
				continue
			}
			s, ok := tn.Type().Underlying().(*types.Struct)
			if !ok {
				continue
			}
			for i := 0; i < s.NumFields(); i++ {
				if types.Identical(s.Field(i).Type(), t) && taken[s.Field(i)] {
					out = append(out, struct {
						structT types.Type
						f       *types.Var
					}{tn.Type(), s.Field(i)})
				}
			}
		}
	}
	return
}

// deref reads *p.
func (ex *Exec) deref(st *State, p *Val, pos token.Pos) *Val {
	elem, ok := derefType(p.T)
	if !ok {
		ex.unsupported(pos, "deref of non-pointer")
		return &Val{T: p.T, Term: ex.fresh("deref", ex.sortOf(p.T))}
	}
	ex.nilCheck(st, p, pos, "deref")
	if s, isStruct := elem.Underlying().(*types.Struct); isStruct {
		v := &Val{T: elem, Term: ex.fresh("deref."+shortType(elem), ex.sortOf(elem))}
		for i := 0; i < s.NumFields(); i++ {
			f := s.Field(i)
			st.assume(eq(ex.fieldOfVal(v, f), ex.readField(st, p.Term, elem, f.Name(), f.Type())))
		}
		return v
	}
	// pointer to a field (or boxed scalar)
	srt := ex.sortOf(elem)
	ex.fpMk(intLit(0), intLit(0))
	ref, fid := mk("fp.ref", SInt, p.Term), mk("fp.fid", SInt, p.Term)
	boxName := "Box$" + smtName(srt)
	res := sel(ex.heap(st, boxName, arrSort(SInt, srt)), p.Term)
	for _, c := range ex.candidateFields(elem) {
		hn := ex.fieldHeapName(c.structT, c.f.Name())
		id := ex.fieldID(hn)
		ex.guardedAccessName(st, hn, c.structT, c.f.Name(), pos, eq(fid, intLit(int64(id))))
		res = ite(eq(fid, intLit(int64(id))), ex.readField(st, ref, c.structT, c.f.Name(), c.f.Type()), res)
	}
	v := &Val{T: elem, Term: res}
	ex.wf(st, v)
	return v
}

// storeDeref writes *p = v.
func (ex *Exec) storeDeref(st *State, p *Val, v *Val, pos token.Pos) {
	elem, ok := derefType(p.T)
	if !ok {
		ex.unsupported(pos, "store through non-pointer")
		return
	}
	ex.nilCheck(st, p, pos, "store")
	v = ex.coerce(st, v, elem)
	if s, isStruct := elem.Underlying().(*types.Struct); isStruct {
		for i := 0; i < s.NumFields(); i++ {
			f := s.Field(i)
			ex.writeField(st, p.Term, elem, f.Name(), f.Type(), ex.fieldOfVal(v, f))
		}
		return
	}
	srt := ex.sortOf(elem)
	ex.fpMk(intLit(0), intLit(0))
	ref, fid := mk("fp.ref", SInt, p.Term), mk("fp.fid", SInt, p.Term)
	var isCand []*Term
	for _, c := range ex.candidateFields(elem) {
		hn := ex.fieldHeapName(c.structT, c.f.Name())
		id := ex.fieldID(hn)
		cond := eq(fid, intLit(int64(id)))
		isCand = append(isCand, cond)
		ex.guardedAccessName(st, hn, c.structT, c.f.Name(), pos, cond)
		h := ex.heap(st, hn, arrSort(SInt, srt))
		st.heaps[hn] = ite(cond, store(h, ref, v.Term), h)
	}
	boxName := "Box$" + smtName(srt)
	bh := ex.heap(st, boxName, arrSort(SInt, srt))
	st.heaps[boxName] = ite(or(isCand...), bh, store(bh, p.Term, v.Term))
}

// ---------------------------------------------------------------------
// index / slice

func (ex *Exec) index(st *State, e *ast.IndexExpr) *Val {
	// generic instantiation f[T]?
	if !ex.inSpec() {
		if tv, ok := ex.Info.Types[e.X]; ok {
			if _, isSig := tv.Type.Underlying().(*types.Signature); isSig {
				return ex.expr(st, e.X)
			}
		}
	}
	x := ex.expr(st, e.X)
	i := ex.expr(st, e.Index)
	if x.T == nil {
		panic(ex.posStr(e.Pos()) + ": index of untyped value")
	}
	xt := x.T
	if p, ok := xt.Underlying().(*types.Pointer); ok {
		// pointer to array
		xt = p.Elem()
	}
	switch u := xt.Underlying().(type) {
	case *types.Slice:
		i = ex.coerce(st, ex.materialize(i, tInt), tInt)
		ex.safetyOb(st, "bounds", e.Pos(), and(ge(i.Term, intLit(0)), lt(i.Term, ex.sLen(x.Term))))
		if x.Arr != nil {
			return &Val{T: u.Elem(), Term: sel(x.Arr, ex.ix(ex.sOff(x.Term), i.Term))}
		}
		v := &Val{T: u.Elem(), Term: ex.sliceElem(st, x.Term, i.Term, u.Elem())}
		ex.wf(st, v)
		return v
	case *types.Array:
		i = ex.coerce(st, ex.materialize(i, tInt), tInt)
		ex.safetyOb(st, "bounds", e.Pos(), and(ge(i.Term, intLit(0)), lt(i.Term, intLit(u.Len()))))
		return &Val{T: u.Elem(), Term: sel(x.Term, i.Term)}
	case *types.Basic: // string
		i = ex.coerce(st, ex.materialize(i, tInt), tInt)
		x = ex.materialize(x, tString)
		ex.safetyOb(st, "bounds", e.Pos(), and(ge(i.Term, intLit(0)), lt(i.Term, ex.strLen(x.Term))))
		return &Val{T: tByte, Term: ex.strAt(x.Term, i.Term)}
	case *types.Map:
		i = ex.coerce(st, i, u.Key())
		_, _, mh, _ := ex.mapHeaps(st, u)
		v := &Val{T: u.Elem(), Term: sel(sel(mh, x.Term), i.Term)}
		if !ex.inSpec() {
			ex.wf(st, v)
		}
		if z := ex.zero(u.Elem()); z.Term != nil && z.Term.S == v.Term.S {
			// an absent key reads as the zero value
			v = &Val{T: u.Elem(), Term: ite(ex.mapHas(st, u, x.Term, i.Term), v.Term, z.Term)}
		}
		return v
	}
	ex.unsupported(e.Pos(), "index on "+xt.String())
	return &Val{T: ex.typeOf(e), Term: ex.fresh("idx", ex.sortOf(ex.typeOf(e)))}
}

func (ex *Exec) sliceExpr(st *State, e *ast.SliceExpr) *Val {
	x := ex.expr(st, e.X)
	get := func(a ast.Expr) *Term {
		if a == nil {
			return nil
		}
		v := ex.expr(st, a)
		v = ex.coerce(st, ex.materialize(v, tInt), tInt)
		return v.Term
	}
	lo, hi, mx := get(e.Low), get(e.High), get(e.Max)
	if lo == nil {
		lo = intLit(0)
	}
	switch u := x.T.Underlying().(type) {
	case *types.Slice:
		s := x.Term
		if hi == nil {
			hi = ex.sLen(s)
		}
		capT := ex.sCap(s)
		if mx != nil {
			ex.safetyOb(st, "bounds", e.Pos(), and(ge(lo, intLit(0)), le(lo, hi), le(hi, mx), le(mx, capT)))
			st.assume(and(ge(lo, intLit(0)), le(lo, hi), le(hi, mx), le(mx, capT)))
			capT = mx
		} else {
			ex.safetyOb(st, "bounds", e.Pos(), and(ge(lo, intLit(0)), le(lo, hi), le(hi, capT)))
			st.assume(and(ge(lo, intLit(0)), le(lo, hi), le(hi, capT)))
		}
		r := ex.mkSlice(st, ex.sRef(s), add(ex.sOff(s), lo), sub(hi, lo), sub(capT, lo))
		_ = u
		return &Val{T: x.T, Term: r}
	case *types.Basic: // string
		x = ex.materialize(x, tString)
		if hi == nil {
			hi = ex.strLen(x.Term)
		}
		ex.safetyOb(st, "bounds", e.Pos(), and(ge(lo, intLit(0)), le(lo, hi), le(hi, ex.strLen(x.Term))))
		st.assume(and(ge(lo, intLit(0)), le(lo, hi), le(hi, ex.strLen(x.Term))))
		r := ex.D.app("st.sub", SStr, x.Term, lo, hi)
		st.assume(eq(ex.strLen(r), sub(hi, lo)))
		k := mk("k?", SInt)
		st.assume(forall([]*Term{k}, implies(and(ge(k, intLit(0)), lt(k, sub(hi, lo))), eq(ex.strAt(r, k), ex.strAt(x.Term, add(lo, k)))), []*Term{ex.strAt(r, k)}))
		return &Val{T: x.T, Term: r}
	case *types.Array:
		// slicing an array value: fresh backing store holding a copy (the
		// array variable and the slice alias in Go; writes through the slice
		// are not reflected back - noted).
		if hi == nil {
			hi = intLit(u.Len())
		}
		ex.safetyOb(st, "bounds", e.Pos(), and(ge(lo, intLit(0)), le(lo, hi), le(hi, intLit(u.Len()))))
		// a package-level array (or an array field of an object that is not
		// a local value) is storage that exists before and after this call
		// and that every other call sees: the slice aliases it.  It gets a
		// stable reference that is *not* fresh, with unknown contents.
		if shared, name := ex.sharedArray(e.X); shared {
			ref := ex.D.konst("Garr$"+smtName(name), SInt)
			st.assume(gt(ref, intLit(0)))
			st.assume(lt(ref, ex.D.konst("$alloc@0", SInt)))
			r := ex.mkSlice(st, ref, lo, sub(hi, lo), sub(intLit(u.Len()), lo))
			ex.W.Unsup["slice of the package-level array "+name+": aliases storage shared by all calls (contents unknown, never fresh)"] = true
			return &Val{T: types.NewSlice(u.Elem()), Term: r}
		}
		ref := ex.newRef(st)
		n, _ := ex.memName(u.Elem())
		m := ex.mem(st, u.Elem())
		st.heaps[n] = store(m, ref, x.Term)
		r := ex.mkSlice(st, ref, lo, sub(hi, lo), sub(intLit(u.Len()), lo))
		return &Val{T: types.NewSlice(u.Elem()), Term: r}
	}
	ex.unsupported(e.Pos(), "slice expression on "+x.T.String())
	return &Val{T: ex.typeOf(e), Term: ex.fresh("slice", ex.sortOf(ex.typeOf(e)))}
}

// ---------------------------------------------------------------------
// composite literals

func (ex *Exec) compositeLit(st *State, e *ast.CompositeLit, addr bool) *Val {
	t := ex.typeOf(e)
	if t == nil {
		panic(ex.posStr(e.Pos()) + ": composite literal without type")
	}
	switch u := t.Underlying().(type) {
	case *types.Struct:
		given := map[string]*Val{}
		for i, el := range e.Elts {
			if kv, ok := el.(*ast.KeyValueExpr); ok {
				name := kv.Key.(*ast.Ident).Name
				given[name] = ex.expr(st, kv.Value)
			} else {
				given[u.Field(i).Name()] = ex.expr(st, el)
			}
		}
		if addr {
			ref := ex.newRef(st)
			for i := 0; i < u.NumFields(); i++ {
				f := u.Field(i)
				var v *Val
				if g, ok := given[f.Name()]; ok {
					v = ex.coerce(st, g, f.Type())
				} else {
					v = ex.zero(f.Type())
				}
				if v.Term == nil {
					v = &Val{T: f.Type(), Term: ex.funcRef(st, v)}
				}
				ex.writeField(st, ref, t, f.Name(), f.Type(), v.Term)
			}
			// ghost fields of a freshly allocated struct start at their zero value
			if ts := ex.typeSpecFor(t); ts != nil {
				if len(ts.NonNil) > 0 {
					// constructed here: its nonnil fields are checked when it is returned
					ex.writeField(st, ref, t, "$lit", types.Typ[types.Bool], tTrue)
				}
				for _, g := range ts.Ghosts {
					gt := ex.parseSpecType(g.Type, ex.unitOfType(t))
					ex.writeField(st, ref, t, g.Name, gt, ex.zero(gt).Term)
				}
			}
			return &Val{T: types.NewPointer(t), Term: ref}
		}
		v := &Val{T: t, Term: ex.fresh("lit."+shortType(t), ex.sortOf(t))}
		for i := 0; i < u.NumFields(); i++ {
			f := u.Field(i)
			var fv *Val
			if g, ok := given[f.Name()]; ok {
				fv = ex.coerce(st, g, f.Type())
			} else {
				fv = ex.zero(f.Type())
				if _, isStruct := f.Type().Underlying().(*types.Struct); isStruct {
					continue
				}
			}
			if fv.Term == nil {
				fv = &Val{T: f.Type(), Term: ex.funcRef(st, fv)}
			}
			st.assume(eq(ex.fieldOfVal(v, f), fv.Term))
		}
		return v
	case *types.Slice:
		ref := ex.newRef(st)
		n := int64(len(e.Elts))
		s := ex.mkSlice(st, ref, intLit(0), intLit(n), intLit(n))
		for i, el := range e.Elts {
			if kv, ok := el.(*ast.KeyValueExpr); ok {
				el = kv.Value
			}
			v := ex.coerce(st, ex.exprOrLit(st, el, u.Elem()), u.Elem())
			if v.Term == nil {
				v = &Val{T: u.Elem(), Term: ex.funcRef(st, v)}
			}
			ex.sliceStore(st, s, intLit(int64(i)), u.Elem(), v.Term)
		}
		return &Val{T: t, Term: s}
	case *types.Array:
		arr := ex.zero(t).Term
		for i, el := range e.Elts {
			if kv, ok := el.(*ast.KeyValueExpr); ok {
				el = kv.Value
			}
			v := ex.coerce(st, ex.exprOrLit(st, el, u.Elem()), u.Elem())
			arr = store(arr, intLit(int64(i)), v.Term)
		}
		return &Val{T: t, Term: arr}
	case *types.Map:
		ref := ex.newRef(st)
		ex.mapInitEmpty(st, u, ref)
		for _, el := range e.Elts {
			if kv, ok := el.(*ast.KeyValueExpr); ok {
				k := ex.coerce(st, ex.expr(st, kv.Key), u.Key())
				v := ex.coerce(st, ex.expr(st, kv.Value), u.Elem())
				if k.Term != nil && v.Term == nil {
					v = &Val{T: u.Elem(), Term: ex.funcRef(st, v)}
				}
				if k.Term != nil && v.Term != nil {
					ex.mapStore(st, u, ref, k.Term, v.Term)
				}
			}
		}
		return &Val{T: t, Term: ref}
	}
	ex.unsupported(e.Pos(), "composite literal of "+t.String())
	return &Val{T: t, Term: ex.fresh("lit", ex.sortOf(t))}
}

// exprOrLit evaluates an element that may be an elided composite literal.
func (ex *Exec) exprOrLit(st *State, e ast.Expr, elem types.Type) *Val {
	return ex.expr(st, e)
}

// funcRef gives an opaque, non-nil reference term for a closure/function value.
func (ex *Exec) funcRef(st *State, v *Val) *Term {
	if v.Term != nil {
		return v.Term
	}
	r := ex.fresh("fn", SInt)
	st.assume(gt(r, intLit(0)))
	return r
}

// typeAssert evaluates x.(T); returns (value, ok).
func (ex *Exec) typeAssert(st *State, e *ast.TypeAssertExpr, commaOk bool) []*Val {
	x := ex.expr(st, e.X)
	t := ex.typeOf(e.Type)
	if t == nil {
		t = ex.typeOf(e)
	}
	key := "implements$" + typeKey(t)
	okT := ex.D.app(key, SBool, ex.D.app("dyntype", SInt, x.Term))
	okT = and(not(eq(x.Term, intLit(0))), okT)
	var res *Val
	if _, isIface := t.Underlying().(*types.Interface); isIface || isRefLike(t) {
		res = &Val{T: t, Term: ite(okT, x.Term, intLit(0))}
	} else {
		srt := ex.sortOf(t)
		res = &Val{T: t, Term: ex.D.app("unbox$"+smtName(srt), srt, x.Term)}
	}
	if !commaOk {
		ex.safetyOb(st, "typeassert", e.Pos(), okT)
		st.assume(okT)
	}
	return []*Val{res, {T: tBool, Term: okT}}
}

// addrTakenFields: struct fields whose address is taken (&x.f) somewhere in
// the loaded packages; only those can be the target of a pointer-to-field.
func (w *World) addrTakenFields() map[*types.Var]bool {
	if w.addrTaken != nil {
		return w.addrTaken
	}
	w.addrTaken = map[*types.Var]bool{}
	for _, u := range w.Units {
		for _, f := range u.Pkg.Syntax {
			ast.Inspect(f, func(x ast.Node) bool {
				if ue, ok := x.(*ast.UnaryExpr); ok && ue.Op == token.AND {
					if sel, ok := ast.Unparen(ue.X).(*ast.SelectorExpr); ok {
						if si := u.Pkg.TypesInfo.Selections[sel]; si != nil && si.Kind() == types.FieldVal {
							if v, ok := si.Obj().(*types.Var); ok {
								w.addrTaken[v] = true
							}
						}
					}
				}
				return true
			})
		}
	}
	return w.addrTaken
}

// sharedArray: x is a package-level array variable (possibly parenthesised).
func (ex *Exec) sharedArray(x ast.Expr) (bool, string) {
	id, ok := ast.Unparen(x).(*ast.Ident)
	if !ok {
		return false, ""
	}
	v, ok := ex.Info.ObjectOf(id).(*types.Var)
	if !ok || v.Pkg() == nil || v.Parent() != v.Pkg().Scope() {
		return false, ""
	}
	return true, v.Pkg().Name() + "." + v.Name()
}
