package main

// extra_bounded.go - bounded stand-ins (labelled bounded, never counted as
// discharged obligations): the runtime evaluation of a contract over an
// enumerated input family, through the real functions, with go test -overlay.

import (
	"fmt"
	"path/filepath"
	"regexp"
	"strings"
)

func init() {
	extraChecks["C15"] = append(extraChecks["C15"], boundedUU)
	extraChecks["C08"] = append(extraChecks["C08"], boundedTornCache)
}

// boundedTornCache: txtar/pem/x509 are trusted library parsers out of the
// contracts' reach, so the crash-prefix and corruption clauses of C08 get a
// bounded stand-in through the real GetCertificate.
func boundedTornCache(w *World, tier string, seed int64) extraResult {
	var res extraResult
	env := []string{"VERIF_C08_FILES=1", "VERIF_C08_STRIDE=13"}
	bound := "1 generated cache file x every prefix length, every 13th byte x 3 corruptions"
	if tier == "thorough" {
		env = []string{"VERIF_C08_FILES=4", "VERIF_C08_STRIDE=1"}
		bound = "4 generated cache files x every prefix length, every byte x 3 corruptions"
	}
	out, reproduced := runOverlayTest("lib/sstls", filepath.Join(verifRoot, "replay", "drivers", "sstls_torncache_test.go"), "TestVerifBoundedTornCache", env)
	entry := map[string]any{"name": "bounded.sstls/torn_or_corrupted_cache", "what": "GetCertificate on every prefix and on single-byte corruptions of a real cache file: error or the original key, file never rewritten; nested directories and file owner-only; a deleted cache is regenerated and then stable", "bound": bound, "label": "bounded"}
	if m := reBounded.FindStringSubmatch(out); m != nil {
		entry["counts"] = strings.TrimSpace(m[1])
	}
	ob := &Obligation{Name: "bounded.sstls/torn_or_corrupted_cache", Kind: "bounded", Func: "bounded.sstls", Props: []string{"C08"}, Backend: "ast", Solver: "go-test-overlay (bounded)"}
	switch {
	case reproduced:
		ob.Verdict = "counterexample"
		i := strings.Index(out, "REPRODUCED")
		ob.Detail = firstLines(out[i:], 3)
	case strings.Contains(out, "--- PASS"):
		ob.Verdict = "discharged"
		ob.ASTOK = true
	default:
		ob.Verdict = "undischarged"
		ob.Detail = "bounded driver did not run: " + firstLines(out, 4)
	}
	entry["verdict"] = ob.Verdict
	res.Bounded = append(res.Bounded, entry)
	res.Obligations = append(res.Obligations, ob)
	res.Notes = append(res.Notes, "torn-write and corruption clauses: bounded stand-in through the real GetCertificate ("+bound+"), not counted among the discharged obligations")
	return res
}

var reBounded = regexp.MustCompile(`VERIF-BOUNDED (.*)`)

func boundedUU(w *World, tier string, seed int64) extraResult {
	var res extraResult
	env := []string{fmt.Sprintf("VERIF_SEED=%d", seed)}
	bound := "lengths 0..200 x 6 fills, 4000 pseudo-random invalid texts"
	if tier == "thorough" {
		env = append(env, "VERIF_UU_MAXLEN=1500", "VERIF_UU_INVALID=100000")
		bound = "lengths 0..1500 x 6 fills, 100000 pseudo-random invalid texts"
	}
	out, reproduced := runOverlayTest("lib/uu", filepath.Join(verifRoot, "replay", "drivers", "uu_contract_test.go"), "TestVerifReplayUUContract", env)
	entry := map[string]any{"name": "bounded.uu/contract_evaluated_at_run_time", "what": "encoder == closed-form spec == perl pack(\"u\") (every 7th length), decode(encode(x)) == x, purity of both functions with spare capacity in dst, decoder total and error locates, Max*Len never under-estimate", "bound": bound, "label": "bounded"}
	if m := reBounded.FindStringSubmatch(out); m != nil {
		entry["counts"] = strings.TrimSpace(m[1])
	}
	ob := &Obligation{Name: "bounded.uu/contract_evaluated_at_run_time", Kind: "bounded", Func: "bounded.uu", Props: []string{"C15"}, Backend: "ast", Solver: "go-test-overlay (bounded)"}
	switch {
	case reproduced:
		ob.Verdict = "counterexample"
		i := strings.Index(out, "REPRODUCED")
		ob.Detail = firstLines(out[i:], 3)
	case strings.Contains(out, "\nok ") || strings.Contains(out, "--- PASS") || strings.HasPrefix(out, "ok "):
		ob.Verdict = "discharged"
		ob.ASTOK = true
	default:
		ob.Verdict = "undischarged"
		ob.Detail = "bounded driver did not run: " + firstLines(out, 4)
	}
	entry["verdict"] = ob.Verdict
	res.Bounded = append(res.Bounded, entry)
	res.Obligations = append(res.Obligations, ob)
	res.Notes = append(res.Notes, "round trip, Perl equality and decoder totality are additionally exercised by a bounded run of the contracts through the real functions ("+bound+"); this is a bounded stand-in and is not counted among the discharged obligations")
	return res
}
