package main

// solve.go - run SMT solvers (raced) on one query.

import (
	"bytes"
	"context"
	"fmt"
	"os"
	"os/exec"
	"path/filepath"
	"strings"
	"sync"
	"time"
)

type SolverResult struct {
	Solver  string
	Verdict string // unsat | sat | unknown | timeout | error
	Output  string
	Ms      int64
}

type solverSpec struct {
	name string
	argv func(file string, timeoutS int) []string
}

var solvers = []solverSpec{
	{"z3-new-5.1.0", func(f string, t int) []string { return []string{"z3-new", fmt.Sprintf("-T:%d", t), f} }},
	{"z3-4.8.12", func(f string, t int) []string { return []string{"/usr/bin/z3", fmt.Sprintf("-T:%d", t), f} }},
	{"z3-new-5.1.0-arith2", func(f string, t int) []string {
		return []string{"z3-new", fmt.Sprintf("-T:%d", t), "smt.arith.solver=2", f}
	}},
	{"cvc5-1.0", func(f string, t int) []string {
		return []string{"cvc5", fmt.Sprintf("--tlimit=%d", t*1000), "--produce-models", f}
	}},
}

func parseVerdict(out string) string {
	for _, line := range strings.Split(out, "\n") {
		line = strings.TrimSpace(line)
		switch line {
		case "unsat", "sat", "unknown":
			return line
		case "timeout":
			return "timeout"
		}
		if line != "" && !strings.HasPrefix(line, ";") && !strings.HasPrefix(line, "(error") && !strings.HasPrefix(line, "success") {
			if strings.Contains(line, "timeout") || strings.Contains(line, "interrupted") {
				return "timeout"
			}
		}
	}
	if strings.Contains(out, "timeout") || strings.Contains(out, "interrupted by timeout") {
		return "timeout"
	}
	return "error"
}

// raceSolvers runs all solvers on the script; the first definitive answer
// (unsat/sat) wins and the rest are killed.  If all is true every solver is
// run to completion (cross-solver agreement in the thorough tier).
func raceSolvers(dir, name, script string, timeoutS int, all bool) (best SolverResult, every []SolverResult) {
	return raceSolversStop(dir, name, script, timeoutS, all, nil)
}

// raceSolversStop is raceSolvers with an external stop signal.
func raceSolversStop(dir, name, script string, timeoutS int, all bool, stop <-chan struct{}) (best SolverResult, every []SolverResult) {
	file := filepath.Join(dir, smtName(name)+".smt2")
	if err := os.WriteFile(file, []byte(script), 0o644); err != nil {
		return SolverResult{Verdict: "error", Output: err.Error()}, nil
	}
	ctx, cancel := context.WithCancel(context.Background())
	defer cancel()
	if stop != nil {
		go func() {
			select {
			case <-stop:
				cancel()
			case <-ctx.Done():
			}
		}()
	}
	resCh := make(chan SolverResult, len(solvers))
	var wg sync.WaitGroup
	for _, s := range solvers {
		wg.Add(1)
		go func(s solverSpec) {
			defer wg.Done()
			t0 := time.Now()
			cctx, ccancel := context.WithTimeout(ctx, time.Duration(timeoutS+2)*time.Second)
			defer ccancel()
			argv := s.argv(file, timeoutS)
			cmd := exec.CommandContext(cctx, argv[0], argv[1:]...)
			var buf bytes.Buffer
			cmd.Stdout = &buf
			cmd.Stderr = &buf
			cmd.Run()
			out := buf.String()
			v := parseVerdict(out)
			if cctx.Err() != nil && v == "error" {
				v = "timeout"
			}
			resCh <- SolverResult{Solver: s.name, Verdict: v, Output: out, Ms: time.Since(t0).Milliseconds()}
		}(s)
	}
	go func() { wg.Wait(); close(resCh) }()
	got := false
	for r := range resCh {
		every = append(every, r)
		if !got && (r.Verdict == "unsat" || r.Verdict == "sat") {
			best = r
			got = true
			if !all {
				cancel()
			}
		}
	}
	if !got {
		// pick the most informative non-answer
		best = SolverResult{Solver: "none", Verdict: "unknown"}
		for _, r := range every {
			if r.Verdict == "timeout" {
				best.Verdict = "timeout"
			}
		}
		var sb strings.Builder
		for _, r := range every {
			fmt.Fprintf(&sb, "[%s %s %dms] %s\n", r.Solver, r.Verdict, r.Ms, firstLines(r.Output, 3))
		}
		best.Output = sb.String()
	}
	return best, every
}

func firstLines(s string, n int) string {
	ls := strings.Split(strings.TrimSpace(s), "\n")
	if len(ls) > n {
		ls = ls[:n]
	}
	return strings.Join(ls, " | ")
}

// parseGetValue parses "((x 1) (y #x0a) (z (- 3)))" output to a map.
func parseGetValue(out string) map[string]string {
	m := map[string]string{}
	i := strings.Index(out, "((")
	if i < 0 {
		return m
	}
	s := out[i+1:]
	// iterate top-level parenthesised pairs
	for {
		j := strings.IndexByte(s, '(')
		if j < 0 {
			break
		}
		d := 0
		k := j
		for ; k < len(s); k++ {
			if s[k] == '(' {
				d++
			} else if s[k] == ')' {
				d--
				if d == 0 {
					break
				}
			}
		}
		if k >= len(s) {
			break
		}
		pair := s[j+1 : k]
		sp := strings.IndexAny(pair, " \n\t")
		if sp > 0 {
			m[pair[:sp]] = strings.TrimSpace(pair[sp+1:])
		}
		s = s[k+1:]
		if strings.HasPrefix(strings.TrimSpace(s), ")") {
			break
		}
	}
	return m
}
