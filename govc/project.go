package main

// project.go - projection of a solver model onto the inputs of the function
// under contract, so that the verifier's counterexample can be replayed on the
// real code.  Only []byte parameters (length, capacity, contents at entry) and
// the scalar parameters already in Vars are projected.

import (
	"context"
	"encoding/hex"
	"fmt"
	"os"
	"os/exec"
	"path/filepath"
	"strconv"
	"strings"
	"time"
)

const projectMaxLen = 192

func (ex *Exec) projectInputs(ob *Obligation, q *Query, hyps []*Term, opts dischargeOpts, qfOnly bool) {
	var extra []*Term
	for _, ms := range q.Slices {
		extra = append(extra, ex.sLen(ms.S), ex.sCap(ms.S))
		for i := 0; i < projectMaxLen; i++ {
			extra = append(extra, sel(sel(ms.Mem, ex.sRef(ms.S)), ex.ix(ex.sOff(ms.S), intLit(int64(i)))))
		}
	}
	script := q.Decls.queryX(hyps, q.Goal, nil, extra, qfOnly)
	file := filepath.Join(opts.dir, smtName(ob.Name)+".proj.smt2")
	if err := os.WriteFile(file, []byte(script), 0o644); err != nil {
		return
	}
	ctx, cancel := context.WithTimeout(context.Background(), 20*time.Second)
	defer cancel()
	out, _ := exec.CommandContext(ctx, "z3-new", "-T:15", file).CombinedOutput()
	s := string(out)
	i := strings.Index(s, "PROJ")
	first := strings.TrimSpace(s)
	if i < 0 || !(strings.HasPrefix(first, "sat") || strings.HasPrefix(first, "unknown")) {
		return
	}
	vals := projValues(s[i+4:])
	if len(vals) != len(extra) {
		return
	}
	if ob.Model == nil {
		ob.Model = map[string]string{}
	}
	k := 0
	for _, ms := range q.Slices {
		ln, ok1 := smtInt(vals[k])
		cp, ok2 := smtInt(vals[k+1])
		k += 2
		elems := vals[k : k+projectMaxLen]
		k += projectMaxLen
		if !ok1 || !ok2 || ln < 0 || ln > projectMaxLen || cp < ln || cp > 1<<20 {
			ob.Model["input."+ms.Name+".skipped"] = fmt.Sprintf("len=%s cap=%s", vals[k-projectMaxLen-2], vals[k-projectMaxLen-1])
			continue
		}
		b := make([]byte, ln)
		good := true
		for j := range b {
			v, ok := smtByte(elems[j])
			if !ok {
				good = false
				break
			}
			b[j] = v
		}
		if !good {
			continue
		}
		ob.Model["input."+ms.Name+".len"] = strconv.Itoa(ln)
		ob.Model["input."+ms.Name+".cap"] = strconv.Itoa(cp)
		ob.Model["input."+ms.Name+".hex"] = hex.EncodeToString(b)
	}
}

// projValues returns the value of each "((term value))" answer in order.
func projValues(s string) []string {
	var res []string
	for {
		i := strings.IndexByte(s, '(')
		if i < 0 {
			break
		}
		d, j := 0, i
		for ; j < len(s); j++ {
			if s[j] == '(' {
				d++
			} else if s[j] == ')' {
				d--
				if d == 0 {
					break
				}
			}
		}
		if j >= len(s) {
			break
		}
		ans := strings.TrimSpace(s[i : j+1]) // ((term value))
		s = s[j+1:]
		if !strings.HasPrefix(ans, "((") || !strings.HasSuffix(ans, "))") {
			continue
		}
		in := strings.TrimSpace(ans[2 : len(ans)-2]) // term value
		// value is the last s-expression
		if strings.HasSuffix(in, ")") {
			d := 0
			k := len(in) - 1
			for ; k >= 0; k-- {
				if in[k] == ')' {
					d++
				} else if in[k] == '(' {
					d--
					if d == 0 {
						break
					}
				}
			}
			if k < 0 {
				continue
			}
			res = append(res, in[k:])
		} else {
			k := strings.LastIndexAny(in, " \n\t")
			res = append(res, in[k+1:])
		}
	}
	return res
}

func smtInt(v string) (int, bool) {
	v = strings.TrimSpace(v)
	neg := false
	if strings.HasPrefix(v, "(-") {
		neg = true
		v = strings.TrimSpace(strings.TrimSuffix(strings.TrimPrefix(v, "(-"), ")"))
	}
	n, err := strconv.Atoi(v)
	if err != nil {
		return 0, false
	}
	if neg {
		n = -n
	}
	return n, true
}

func smtByte(v string) (byte, bool) {
	v = strings.TrimSpace(v)
	if strings.HasPrefix(v, "#x") {
		n, err := strconv.ParseUint(v[2:], 16, 8)
		return byte(n), err == nil
	}
	if strings.HasPrefix(v, "#b") {
		n, err := strconv.ParseUint(v[2:], 2, 8)
		return byte(n), err == nil
	}
	return 0, false
}
