package main

// replay.go - replaying failed obligations on the real code with in-package
// tests injected through `go test -overlay` (nothing is written to /repo).

import (
	"encoding/json"
	"fmt"
	"os"
	"os/exec"
	"path/filepath"
	"strings"
	"time"
)

type replayDriver struct {
	Funcs  []string // obligation functions this driver can replay (prefix match)
	PkgDir string
	File   string // under /verif/replay/drivers
	Test   string
	Env    func(ob *Obligation) []string
}

var replayTable = []replayDriver{
	{Funcs: []string{"iobroker.Broker.proxyOut#1"}, PkgDir: "internal/iobroker", File: "iobroker_readerleak_test.go", Test: "TestVerifReplayReaderLeak"},
	{Funcs: []string{"iobroker.Broker.ConnectInOut"}, PkgDir: "internal/iobroker", File: "iobroker_crosspair_test.go", Test: "TestVerifReplayCrossPair"},
	{Funcs: []string{"uu.AppendEncode", "uu.AppendDecode", "uu.MaxEncodedLen", "uu.MaxDecodedLen", "bounded.uu"}, PkgDir: "lib/uu", File: "uu_contract_test.go", Test: "TestVerifReplayUUContract", Env: modelEnv},
	{Funcs: []string{"sstls.GetCertificate", "sstls.LoadCachedCertificate", "sstls.SaveCertificate", "bounded.sstls"}, PkgDir: "lib/sstls", File: "sstls_torncache_test.go", Test: "TestVerifBoundedTornCache"},
	{Funcs: []string{"shellfuncsfile.FromPerl"}, PkgDir: "lib/shellfuncsfile", File: "shellfuncsfile_emptyperl_test.go", Test: "TestVerifReplayEmptyPerl"},
	{Funcs: []string{"shellfuncsfile.Converter.fromSingleFile", "shellfuncsfile.Converter.fromDirectory"}, PkgDir: "lib/shellfuncsfile", File: "shellfuncsfile_c17_test.go", Test: "TestVerifReplayC17"},
	{Funcs: []string{"simpleshell.Go"}, PkgDir: "lib/simpleshell", File: "simpleshell_defaultclient_test.go", Test: "TestVerifReplayDefaultClient"},
	{Funcs: []string{"simpleshell.CmdShell.Go"}, PkgDir: "lib/simpleshell", File: "simpleshell_cmdshell_test.go", Test: "TestVerifReplayCmdShellDrain"},
	{Funcs: []string{"opshell.New#2"}, PkgDir: "lib/opshell", File: "opshell_ctrlo_lockorder_test.go", Test: "TestVerifReplayCtrlOLockOrder"},
	{Funcs: []string{"hsrv.Server.RLogf", "hsrv.Server.RErrorLogf", "hsrv.Server.Logf", "hsrv.Server.ErrorLogf"}, PkgDir: "internal/hsrv", File: "hsrv_rlogf_test.go", Test: "TestVerifReplayRLogf"},
}

// modelEnv passes the projection of the verifier's model onto the function's
// []byte inputs to the driver (tried first, before any enumeration).
func modelEnv(ob *Obligation) []string {
	env := []string{}
	have := false
	for k, v := range ob.Model {
		if !strings.HasPrefix(k, "input.") {
			continue
		}
		parts := strings.Split(k, ".") // input.<param>.<len|cap|hex>
		if len(parts) != 3 {
			continue
		}
		switch parts[2] {
		case "hex", "cap", "len":
			env = append(env, "VERIF_MODEL_"+parts[1]+"_"+strings.ToUpper(parts[2])+"="+v)
			have = true
		}
	}
	if have {
		env = append(env, "VERIF_MODEL_FUNC="+ob.Func)
	}
	return env
}

func runOverlayTest(pkgDir, driverFile, test string, env []string) (string, bool) {
	tmp, err := os.MkdirTemp("", "govc-replay")
	if err != nil {
		return err.Error(), false
	}
	defer os.RemoveAll(tmp)
	dst := filepath.Join(repoRoot, pkgDir, "zz_verif_replay_test.go")
	ov := map[string]map[string]string{"Replace": {dst: driverFile}}
	b, _ := json.Marshal(ov)
	ovf := filepath.Join(tmp, "ov.json")
	os.WriteFile(ovf, b, 0o644)
	cmd := exec.Command("go", "test", "-v", "-tags", "verif", "-overlay", ovf, "-vet=off", "-count=1", "-timeout", "120s", "-run", "^"+test+"$", ".")
	cmd.Dir = filepath.Join(repoRoot, pkgDir)
	cmd.Env = append(os.Environ(), "GOFLAGS=-mod=mod", "GOPROXY=off", "GOSUMDB=off", "GOTOOLCHAIN=local")
	cmd.Env = append(cmd.Env, env...)
	done := make(chan struct{})
	var out []byte
	go func() { out, _ = cmd.CombinedOutput(); close(done) }()
	select {
	case <-done:
	case <-time.After(150 * time.Second):
		if cmd.Process != nil {
			cmd.Process.Kill()
		}
		return "replay timed out", false
	}
	s := string(out)
	return s, strings.Contains(s, "REPRODUCED")
}

func init() {
	for _, d := range replayTable {
		d := d
		for _, f := range d.Funcs {
			replayDrivers[f] = func(w *World, ob *Obligation, rep map[string]any) bool {
				var env []string
				if d.Env != nil {
					env = d.Env(ob)
				}
				out, ok := runOverlayTest(d.PkgDir, filepath.Join(verifRoot, "replay", "drivers", d.File), d.Test, env)
				if len(out) > 4000 {
					out = out[:4000]
				}
				rep["replay"] = map[string]any{"driver": d.File, "test": d.Test, "reproduced": ok, "output": out,
					"cmd": fmt.Sprintf("go test -overlay <%s as %s/zz_verif_replay_test.go> -run ^%s$", d.File, d.PkgDir, d.Test)}
				return ok
			}
		}
	}
}

// cmdReplay re-runs the driver recorded in a replay file.
func cmdReplay(args []string) int {
	if len(args) < 1 {
		usage()
	}
	data, err := os.ReadFile(args[0])
	if err != nil {
		fmt.Println(err)
		return 2
	}
	var rep map[string]any
	if err := json.Unmarshal(data, &rep); err != nil {
		fmt.Println(err)
		return 2
	}
	fn, _ := rep["function"].(string)
	fmt.Printf("obligation: %v\nverdict: %v\nsolver output: %v\n", rep["obligation"], rep["verdict"], rep["solver_output"])
	if f, ok := replayDrivers[fn]; ok {
		ob := &Obligation{Func: fn, Name: fmt.Sprint(rep["obligation"])}
		if m, ok := rep["model"].(map[string]any); ok {
			ob.Model = map[string]string{}
			for k, v := range m {
				ob.Model[k] = fmt.Sprint(v)
			}
		}
		out := map[string]any{}
		okr := f(nil, ob, out)
		b, _ := json.MarshalIndent(out, "", " ")
		fmt.Println(string(b))
		if okr {
			fmt.Println("REPRODUCED on the real code")
			return 1
		}
		fmt.Println("not reproduced")
		return 0
	}
	fmt.Println("no replay driver for", fn, "- the replay file carries the failed obligation and the solver output only")
	return 0
}

// replayNoTTY builds the program from the tree under check and runs it in a
// new session without a controlling terminal; a Go panic is a reproduction.
func replayNoTTY(w *World, ob *Obligation, rep map[string]any) bool {
	tmp, err := os.MkdirTemp("", "govc-replay")
	if err != nil {
		return false
	}
	defer os.RemoveAll(tmp)
	bin := filepath.Join(tmp, "crs")
	build := exec.Command("go", "build", "-o", bin, ".")
	build.Dir = repoRoot
	build.Env = append(os.Environ(), "GOFLAGS=-mod=mod", "GOPROXY=off", "GOSUMDB=off", "GOTOOLCHAIN=local")
	if out, err := build.CombinedOutput(); err != nil {
		rep["replay"] = map[string]any{"driver": "no-tty run of the built binary", "error": string(out)}
		return false
	}
	run := exec.Command("timeout", "20", "setsid", "-w", bin, "-tls-certificate-cache", filepath.Join(tmp, "cert.txtar"))
	run.Stdin = nil
	out, _ := run.CombinedOutput()
	s := string(out)
	ok := strings.Contains(s, "panic:") || strings.Contains(s, "SIGSEGV") || strings.Contains(s, "goroutine 1 [")
	if len(s) > 3000 {
		s = s[:3000]
	}
	if ok {
		s = "REPRODUCED: started without a controlling terminal the program panics instead of reporting the failure:\n" + s
	}
	rep["replay"] = map[string]any{"driver": "go build . && setsid -w ./curlrevshell </dev/null (no controlling terminal)", "reproduced": ok, "output": s}
	return ok
}

func init() {
	replayDrivers["main.rmain"] = replayNoTTY
}
