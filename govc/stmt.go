package main

// stmt.go - statements, control flow, loops, defers, select, go.

import (
	"fmt"
	"os"
	"go/ast"
	"go/token"
	"go/types"
	"sort"
	"strings"
	"bytes"
	"go/parser"
	"go/printer"
	"sync"
)

type flowKind int

const (
	flowNormal flowKind = iota
	flowBreak
	flowContinue
	flowReturn
	flowDead
)

type flow struct {
	kind  flowKind
	label string
	st    *State
	rets  []*Val
}

func (ex *Exec) tooManyPaths() bool {
	return ex.paths > ex.maxPaths
}

// block executes statements in sequence over forking states.
func (ex *Exec) block(st *State, stmts []ast.Stmt) []flow {
	cur := []*State{st}
	var out []flow
	for _, s := range stmts {
		var next []*State
		for _, c := range cur {
			for _, f := range ex.stmt(c, s, "") {
				if f.kind == flowNormal {
					next = append(next, f.st)
				} else if f.kind != flowDead {
					out = append(out, f)
				}
			}
		}
		cur = next
		if len(cur) == 0 {
			break
		}
	}
	for _, c := range cur {
		out = append(out, flow{kind: flowNormal, st: c})
	}
	return out
}

func normal(st *State) []flow { return []flow{{kind: flowNormal, st: st}} }

func (ex *Exec) stmt(st *State, s ast.Stmt, label string) []flow {
	if st.dead {
		return nil
	}
	ex.runAnchors(st, s, "before")
	var prev *State
	if ex.hasAfterAnchor(s) {
		prev = st.clone()
	}
	fl := ex.stmt1(st, s, label)
	savePrev := ex.prevState
	ex.prevState = prev
	for _, f := range fl {
		if f.kind == flowNormal {
			ex.runAnchors(f.st, s, "after")
		}
	}
	ex.prevState = savePrev
	return fl
}

// hasAfterAnchor: does an `after` hook name this statement?
func (ex *Exec) hasAfterAnchor(s ast.Stmt) bool {
	if ex.FSpec == nil || ex.hookDepth > 0 {
		return false
	}
	txt := ""
	for _, h := range ex.FSpec.Hooks {
		if h.Kind != "after" {
			continue
		}
		if txt == "" {
			txt = stmtKey(ex.nodeSrc(s))
		}
		if txt == stmtKey(h.Target) || ex.isLoopAnchor(s, h.Target) {
			return true
		}
	}
	return false
}

// runAnchors executes after/before hooks whose text matches the statement.
func (ex *Exec) runAnchors(st *State, s ast.Stmt, kind string) {
	if ex.FSpec == nil || ex.hookDepth > 0 {
		return
	}
	var txt string
	for _, h := range ex.FSpec.Hooks {
		if h.Kind != kind {
			continue
		}
		if txt == "" {
			txt = ex.nodeSrc(s)
		}
		if stmtKey(txt) == stmtKey(h.Target) || ex.isLoopAnchor(s, h.Target) {
			ex.anchorHit[h] = true
			ex.hookDepth++
			ex.runGhost(st, h.Body, ex.U, fmt.Sprintf("%s:%d %s %q", h.File, h.Line, kind, h.Target), h.Props)
			ex.hookDepth--
		}
	}
}

// isLoopAnchor: `before|after "loop 1.2"` names a loop statement by its ordinal.
func (ex *Exec) isLoopAnchor(s ast.Stmt, target string) bool {
	t := normSpace(target)
	if !strings.HasPrefix(t, "loop ") {
		return false
	}
	switch s.(type) {
	case *ast.ForStmt, *ast.RangeStmt:
		return ex.loopPathOf(s) == strings.TrimSpace(strings.TrimPrefix(t, "loop "))
	}
	return false
}

var canonCache sync.Map

// stmtKey is the text of a statement in a canonical form used to match
// `before|after "..."` anchors: comments dropped, white space normalised, and
// the operands of == and != ordered, so that a "yoda" rewrite of a condition
// does not unbind a contract.
func stmtKey(src string) string {
	if v, ok := canonCache.Load(src); ok {
		return v.(string)
	}
	out := normSpace(src)
	fset := token.NewFileSet()
	f, err := parser.ParseFile(fset, "", "package p\nfunc _() {\n"+src+"\n}", parser.SkipObjectResolution)
	if err == nil && len(f.Decls) == 1 {
		ast.Inspect(f, func(n ast.Node) bool {
			// (also + and *: the key only identifies a statement inside one
			// function, it is not used to reason about it)
			if be, ok := n.(*ast.BinaryExpr); ok && (be.Op == token.EQL || be.Op == token.NEQ || be.Op == token.ADD || be.Op == token.MUL) {
				if types.ExprString(be.X) > types.ExprString(be.Y) {
					be.X, be.Y = be.Y, be.X
				}
			}
			return true
		})
		var buf bytes.Buffer
		if printer.Fprint(&buf, fset, f.Decls[0].(*ast.FuncDecl).Body) == nil {
			out = normSpace(buf.String())
		}
	}
	// layout-independent: no white space at all, no trailing commas
	out = strings.Join(strings.Fields(out), "")
	out = strings.ReplaceAll(strings.ReplaceAll(out, ",}", "}"), ",)", ")")
	canonCache.Store(src, out)
	return out
}

func normSpace(s string) string { return strings.Join(strings.Fields(s), " ") }

// mergeNormals merges the normal-completion flows of a branching statement
// into one state (path merging), when that is possible.
func (ex *Exec) mergeNormals(prefix int, fl []flow) []flow {
	var normals []flowOut
	var rest []flow
	for _, f := range fl {
		if f.kind == flowNormal && !f.st.dead {
			normals = append(normals, flowOut{st: f.st})
		} else if f.kind != flowDead {
			rest = append(rest, f)
		}
	}
	if len(normals) < 2 || os.Getenv("GOVC_NOMERGE") != "" {
		return fl
	}
	if !canMerge(prefix, normals) {
		return fl
	}
	m, _ := ex.mergeStates(prefix, normals, 0)
	m.path = append(append([]string(nil), normals[0].st.path[:min(len(normals[0].st.path), commonPath(normals))]...), "M")
	return append(rest, flow{kind: flowNormal, st: m})
}

func commonPath(outs []flowOut) int {
	n := len(outs[0].st.path)
	for _, o := range outs[1:] {
		k := 0
		for k < n && k < len(o.st.path) && o.st.path[k] == outs[0].st.path[k] {
			k++
		}
		n = k
	}
	return n
}

func canMerge(prefix int, outs []flowOut) bool {
	first := outs[0].st
	for _, o := range outs {
		if len(o.st.pc) < prefix {
			return false
		}
	}
	for _, o := range outs[1:] {
		s := o.st
		if len(s.held) != len(first.held) || len(s.frames) != len(first.frames) || len(s.lastUnlock) != len(first.lastUnlock) {
			return false
		}
		for k := range first.held {
			if _, ok := s.held[k]; !ok {
				return false
			}
		}
		for k, lu := range first.lastUnlock {
			if s.lastUnlock[k] != lu {
				return false
			}
		}
		for i := range first.frames {
			if len(first.frames[i].defers) != len(s.frames[i].defers) {
				return false
			}
			for j := range first.frames[i].defers {
				if first.frames[i].defers[j] != s.frames[i].defers[j] {
					return false
				}
			}
		}
		for k, v := range first.vars {
			w, ok := s.vars[k]
			if !ok {
				continue
			}
			if (v.Term == nil || w.Term == nil) && v != w {
				return false
			}
			if v.Term != nil && w.Term != nil && v.Term.S != w.Term.S {
				return false
			}
		}
		for k, v := range first.held {
			if s.held[k].snap != v.snap {
				return false
			}
		}
	}
	return true
}

func (ex *Exec) stmt1(st *State, s ast.Stmt, label string) []flow {
	switch s := s.(type) {
	case *ast.EmptyStmt:
		return normal(st)
	case *ast.BlockStmt:
		return ex.block(st, s.List)
	case *ast.LabeledStmt:
		return ex.stmt1(st, s.Stmt, s.Label.Name)
	case *ast.ExprStmt:
		if u, ok := s.X.(*ast.UnaryExpr); ok && u.Op == token.ARROW {
			ex.recv(st, u.X, u.Pos())
			return normal(st)
		}
		ex.expr(st, s.X)
		if st.dead {
			return nil
		}
		return normal(st)
	case *ast.SendStmt:
		ex.send(st, s.Chan, s.Value, s.Pos())
		return normal(st)
	case *ast.IncDecStmt:
		cur := ex.expr(st, s.X)
		var nv *Val
		if cur.Term.S == SByte {
			op := "bvadd"
			if s.Tok == token.DEC {
				op = "bvsub"
			}
			nv = &Val{T: cur.T, Term: mk(op, SByte, cur.Term, byteLit(1))}
		} else {
			d := int64(1)
			if s.Tok == token.DEC {
				d = -1
			}
			nv = &Val{T: cur.T, Term: add(cur.Term, intLit(d))}
		}
		ex.assign(st, s.X, nv, false)
		return normal(st)
	case *ast.AssignStmt:
		ex.assignStmt(st, s)
		if st.dead {
			return nil
		}
		return normal(st)
	case *ast.DeclStmt:
		gd, ok := s.Decl.(*ast.GenDecl)
		if !ok {
			return normal(st)
		}
		for _, sp := range gd.Specs {
			vs, ok := sp.(*ast.ValueSpec)
			if !ok {
				continue
			}
			var vals []*Val
			if len(vs.Values) == 1 && len(vs.Names) > 1 {
				v := ex.expr(st, vs.Values[0])
				vals = v.Tuple
			} else {
				for _, ve := range vs.Values {
					vals = append(vals, ex.expr(st, ve))
				}
			}
			for i, n := range vs.Names {
				o := ex.Info.Defs[n]
				if o == nil {
					continue
				}
				var v *Val
				if i < len(vals) {
					v = ex.coerce(st, vals[i], o.Type())
				} else {
					v = ex.zero(o.Type())
					ex.structFieldsZero(st, v, nil)
				}
				if ex.boxed[o] {
					ex.assign1(st, n, v, true)
					continue
				}
				st.vars[o] = v
				st.names[n.Name] = o
			}
		}
		return normal(st)
	case *ast.IfStmt:
		n := len(st.pc)
		return ex.mergeNormals(n, ex.ifStmt(st, s))
	case *ast.ForStmt:
		return ex.forStmt(st, s, label)
	case *ast.RangeStmt:
		return ex.rangeStmt(st, s, label)
	case *ast.SwitchStmt:
		n := len(st.pc)
		return ex.mergeNormals(n, ex.switchStmt(st, s, label))
	case *ast.TypeSwitchStmt:
		ex.unsupported(s.Pos(), "type switch (all cases explored with opaque bindings)")
		var out []flow
		for _, c := range s.Body.List {
			cc := c.(*ast.CaseClause)
			b := st.clone()
			out = append(out, ex.breakable(ex.block(b, cc.Body), label)...)
		}
		return out
	case *ast.SelectStmt:
		return ex.selectStmt(st, s, label)
	case *ast.ReturnStmt:
		return ex.returnStmt(st, s)
	case *ast.BranchStmt:
		lbl := ""
		if s.Label != nil {
			lbl = s.Label.Name
		}
		switch s.Tok {
		case token.BREAK:
			return []flow{{kind: flowBreak, label: lbl, st: st}}
		case token.CONTINUE:
			return []flow{{kind: flowContinue, label: lbl, st: st}}
		}
		ex.unsupported(s.Pos(), "branch "+s.Tok.String())
		return normal(st)
	case *ast.DeferStmt:
		fn := ex.deferTarget(st, s.Call)
		var args []*Val
		if fn != nil && fn.Note != "builtin" {
			args = ex.evalArgs(st, s.Call, fn)
		}
		fr := st.frame()
		fr.defers = append(fr.defers, &deferred{call: s.Call, fn: fn, args: args, ex: ex})
		return normal(st)
	case *ast.GoStmt:
		ex.goStmt(st, s)
		return normal(st)
	}
	ex.unsupported(s.Pos(), fmt.Sprintf("statement %T", s))
	return normal(st)
}

func (ex *Exec) deferTarget(st *State, call *ast.CallExpr) *Val {
	fun := ast.Unparen(call.Fun)
	if id, ok := fun.(*ast.Ident); ok {
		if _, ok := ex.Info.ObjectOf(id).(*types.Builtin); ok {
			return &Val{Note: "builtin"}
		}
	}
	return ex.expr(st, call.Fun)
}

// runDefers runs the current frame's deferred calls in reverse order.
func (ex *Exec) runDefers(st *State) {
	fr := st.frame()
	ds := fr.defers
	fr.defers = nil
	for i := len(ds) - 1; i >= 0; i-- {
		d := ds[i]
		if st.dead {
			return
		}
		if d.fn != nil && d.fn.Note == "builtin" {
			ex.builtin(st, d.call.Fun.(*ast.Ident).Name, d.call)
			continue
		}
		ex.apply(st, d.fn, d.args, d.call)
	}
}

// goInlineSafe: the closure's captured locals are not assigned in the closure
// nor anywhere else in the enclosing body after the go statement.
func (ex *Exec) goInlineSafe(s *ast.GoStmt, lit *ast.FuncLit) bool {
	captured := map[types.Object]bool{}
	ast.Inspect(lit.Body, func(x ast.Node) bool {
		if id, ok := x.(*ast.Ident); ok {
			if o, ok := ex.Info.Uses[id].(*types.Var); ok && !o.IsField() && o.Pkg() != nil && o.Parent() != o.Pkg().Scope() {
				if o.Pos() < lit.Pos() || o.Pos() >= lit.End() {
					captured[o] = true
				}
			}
		}
		return true
	})
	safe := true
	ast.Inspect(lit.Body, func(x ast.Node) bool {
		switch u := x.(type) {
		case *ast.ForStmt, *ast.RangeStmt, *ast.SelectStmt, *ast.SendStmt:
			safe = false
		case *ast.UnaryExpr:
			if u.Op == token.ARROW {
				safe = false
			}
		}
		return true
	})
	check := func(root ast.Node, after token.Pos) {
		ast.Inspect(root, func(x ast.Node) bool {
			var lhs []ast.Expr
			switch a := x.(type) {
			case *ast.AssignStmt:
				if a.Pos() >= after {
					lhs = a.Lhs
				}
			case *ast.IncDecStmt:
				if a.Pos() >= after {
					lhs = []ast.Expr{a.X}
				}
			}
			for _, l := range lhs {
				if id, ok := ast.Unparen(l).(*ast.Ident); ok {
					if o := ex.Info.ObjectOf(id); o != nil && captured[o] {
						safe = false
					}
				}
			}
			return true
		})
	}
	check(lit.Body, token.NoPos)
	if ex.unitBody != nil {
		check(ex.unitBody, s.End())
	}
	return safe
}

func (ex *Exec) goStmt(st *State, s *ast.GoStmt) {
	// a new goroutine holds none of its parent's locks: the literal is
	// inlined only when the parent holds no lock of this program (whose
	// protected state the inlined critical sections would otherwise see in
	// the wrong order); locks of other libraries the parent is declared to
	// hold (`holds`) are dropped for the duration of the inlined body
	parentLocked := false
	for _, lh := range st.held {
		if lh != nil && lh.ls != nil {
			parentLocked = true
		}
	}
	if lit, ok := ast.Unparen(s.Call.Fun).(*ast.FuncLit); ok && len(s.Call.Args) == 0 && !parentLocked && ex.goInlineSafe(s, lit) {
		ex.runHooks(st, "go", "func", nil, nil, s.Pos())
		ex.W.Trusted["goroutine literal in "+ex.FName+" verified inline at its spawn point (its captured locals are not assigned by it or after the go statement; effects on lock-protected state go through lock invariants)"] = true
		fn := ex.expr(st, s.Call.Fun)
		saved := st.held
		st.held = map[string]*lockHeld{}
		ex.apply(st, fn, nil, s.Call)
		for k := range st.held {
			ex.oblige(st, "lock-released", k+"@goroutine", s.Pos(), tFalse, nil)
		}
		st.held = saved
		return
	}
	fn := ex.expr(st, s.Call.Fun)
	var args []*Val
	for _, a := range s.Call.Args {
		args = append(args, ex.expr(st, a))
	}
	target := exprText(s.Call.Fun)
	if fn.Lit != nil {
		target = "func"
	}
	ex.runHooks(st, "go", target, args, nil, s.Pos())
	if fn.Fn != nil {
		for _, k := range hookKeys(fn.Fn) {
			ex.runHooks(st, "go", k, args, nil, s.Pos())
		}
	}
	ex.W.Trusted["goroutine spawned in "+ex.FName+" ("+target+"): body runs concurrently; no effect on this activation's state assumed beyond lock invariants"] = true
}

func (ex *Exec) assignStmt(st *State, s *ast.AssignStmt) {
	define := s.Tok == token.DEFINE
	if s.Tok != token.ASSIGN && s.Tok != token.DEFINE {
		// op-assign
		var op token.Token
		switch s.Tok {
		case token.ADD_ASSIGN:
			op = token.ADD
		case token.SUB_ASSIGN:
			op = token.SUB
		case token.MUL_ASSIGN:
			op = token.MUL
		case token.QUO_ASSIGN:
			op = token.QUO
		case token.REM_ASSIGN:
			op = token.REM
		case token.AND_ASSIGN:
			op = token.AND
		case token.OR_ASSIGN:
			op = token.OR
		case token.XOR_ASSIGN:
			op = token.XOR
		case token.SHL_ASSIGN:
			op = token.SHL
		case token.SHR_ASSIGN:
			op = token.SHR
		case token.AND_NOT_ASSIGN:
			op = token.AND_NOT
		}
		x := ex.expr(st, s.Lhs[0])
		y := ex.expr(st, s.Rhs[0])
		ex.assign(st, s.Lhs[0], ex.binop(st, op, x, y, s.Pos()), false)
		return
	}
	if len(s.Lhs) > 1 && len(s.Rhs) == 1 {
		var vals []*Val
		switch r := ast.Unparen(s.Rhs[0]).(type) {
		case *ast.CallExpr:
			v := ex.expr(st, r)
			vals = v.Tuple
			if vals == nil {
				vals = []*Val{v}
			}
		case *ast.UnaryExpr: // v, ok := <-ch
			vals = ex.recv(st, r.X, r.Pos())
		case *ast.TypeAssertExpr:
			vals = ex.typeAssert(st, r, true)
		case *ast.IndexExpr: // v, ok := m[k]
			v := ex.expr(st, r)
			okT := ex.fresh("mapok", SBool)
			if mt, isMap := ex.typeOf(r.X).Underlying().(*types.Map); isMap {
				mv := ex.expr(st, r.X)
				kv := ex.coerce(st, ex.expr(st, r.Index), mt.Key())
				if mv.Term != nil && kv.Term != nil {
					okT = ex.mapHas(st, mt, mv.Term, kv.Term)
				}
			}
			vals = []*Val{v, {T: tBool, Term: okT}}
		default:
			ex.unsupported(s.Pos(), "multi-value assignment")
			return
		}
		if st.dead {
			return
		}
		for i, l := range s.Lhs {
			if i < len(vals) {
				ex.assign(st, l, vals[i], define)
			}
		}
		return
	}
	// parallel assignment: evaluate all RHS first
	var vals []*Val
	for _, r := range s.Rhs {
		vals = append(vals, ex.expr(st, r))
	}
	if st.dead {
		return
	}
	for i, l := range s.Lhs {
		ex.assign(st, l, vals[i], define)
	}
}

// assign stores v into the location denoted by lhs.
func (ex *Exec) assign(st *State, lhs ast.Expr, v *Val, define bool) {
	lhs = ast.Unparen(lhs)
	ex.assign1(st, lhs, v, define)
	if ex.FSpec != nil && ex.hookDepth == 0 && !ex.inSpec() {
		hv := v
		if t := ex.typeOf(lhs); t != nil && hv != nil {
			hv = ex.coerce(st, hv, t)
		}
		ex.runHooks(st, "assign", exprText(lhs), []*Val{hv}, nil, lhs.Pos())
	}
}

func (ex *Exec) assign1(st *State, lhs ast.Expr, v *Val, define bool) {
	switch l := lhs.(type) {
	case *ast.Ident:
		if l.Name == "_" {
			return
		}
		var o types.Object
		if define {
			o = ex.Info.Defs[l]
		}
		if o == nil {
			o = ex.Info.ObjectOf(l)
		}
		if o == nil {
			return
		}
		if vr, ok := o.(*types.Var); ok && vr.Parent() == vr.Pkg().Scope() {
			nv := ex.coerce(st, v, o.Type())
			if nv.Term == nil {
				nv = &Val{T: o.Type(), Term: ex.funcRef(st, nv)}
			}
			ex.heap(st, globalName(o), ex.sortOf(o.Type()))
			st.heaps[globalName(o)] = nv.Term
			ex.globalWrites[globalName(o)] = true
			return
		}
		if ex.boxed[o] {
			if _, isStruct := o.Type().Underlying().(*types.Struct); isStruct {
				cur, ok := st.vars[o]
				if !ok || !cur.Boxed || define {
					ref := ex.newRef(st)
					cur = &Val{T: types.NewPointer(o.Type()), Term: ref, Boxed: true}
					st.vars[o] = cur
					st.names[l.Name] = o
					if ts := ex.typeSpecFor(o.Type()); ts != nil {
						if len(ts.NonNil) > 0 {
							ex.writeField(st, ref, o.Type(), "$lit", types.Typ[types.Bool], tTrue)
						}
						for _, g := range ts.Ghosts {
							gt := ex.parseSpecType(g.Type, ex.unitOfType(o.Type()))
							ex.writeField(st, ref, o.Type(), g.Name, gt, ex.zero(gt).Term)
						}
					}
				}
				p := *cur
				p.Boxed = false
				sv := ex.coerce(st, v, o.Type())
				if sv.Note == "zero" {
					ex.structFieldsZero(st, sv, nil)
				}
				ex.storeDeref(st, &p, sv, l.Pos())
				return
			}
		}
		st.vars[o] = ex.coerce(st, v, o.Type())
		st.names[l.Name] = o
	case *ast.SelectorExpr:
		selInfo := ex.Info.Selections[l]
		if selInfo == nil || selInfo.Kind() != types.FieldVal {
			// pkg.Var = v
			if o, ok := ex.Info.ObjectOf(l.Sel).(*types.Var); ok && !o.IsField() {
				nv := ex.coerce(st, v, o.Type())
				if nv.Term == nil {
					nv = &Val{T: o.Type(), Term: ex.funcRef(st, nv)}
				}
				ex.heap(st, globalName(o), ex.sortOf(o.Type()))
				st.heaps[globalName(o)] = nv.Term
				ex.globalWrites[globalName(o)] = true
				return
			}
			ex.unsupported(l.Pos(), "assignment to selector")
			return
		}
		cur := ex.expr(st, l.X)
		idx := selInfo.Index()
		for i := 0; i < len(idx)-1; i++ {
			base, _ := derefType(cur.T)
			cur = ex.fieldStep(st, cur, base.Underlying().(*types.Struct).Field(idx[i]), l.Pos())
		}
		base, isPtr := derefType(cur.T)
		f := base.Underlying().(*types.Struct).Field(idx[len(idx)-1])
		nv := ex.coerce(st, v, f.Type())
		if nv.Term == nil {
			nv = &Val{T: f.Type(), Term: ex.funcRef(st, nv)}
		}
		if isPtr {
			ex.nilCheck(st, cur, l.Pos(), "field store")
			ex.guardedAccess(st, cur, base, f.Name(), l.Pos())
			if ts := ex.typeSpecFor(base); ts != nil && ts.NonNil[f.Name()] && isRefLike(f.Type()) {
				ex.safetyOb(st, "nonnil-field", l.Pos(), gt(nv.Term, intLit(0)))
			}
			ex.writeField(st, cur.Term, base, f.Name(), f.Type(), nv.Term)
			return
		}
		// field of a struct value held in a variable: rebuild the value
		nsv := &Val{T: cur.T, Term: ex.fresh("upd."+shortType(cur.T), ex.sortOf(cur.T))}
		sT := base.Underlying().(*types.Struct)
		for i := 0; i < sT.NumFields(); i++ {
			g := sT.Field(i)
			if g == f {
				st.assume(eq(ex.fieldOfVal(nsv, g), nv.Term))
			} else {
				st.assume(eq(ex.fieldOfVal(nsv, g), ex.fieldOfVal(cur, g)))
			}
		}
		ex.assign(st, l.X, nsv, false)
	case *ast.IndexExpr:
		x := ex.expr(st, l.X)
		i := ex.expr(st, l.Index)
		switch u := x.T.Underlying().(type) {
		case *types.Slice:
			i = ex.coerce(st, ex.materialize(i, tInt), tInt)
			ex.safetyOb(st, "bounds", l.Pos(), and(ge(i.Term, intLit(0)), lt(i.Term, ex.sLen(x.Term))))
			nv := ex.coerce(st, v, u.Elem())
			if nv.Term == nil {
				nv = &Val{T: u.Elem(), Term: ex.funcRef(st, nv)}
			}
			ex.sliceStore(st, x.Term, i.Term, u.Elem(), nv.Term)
		case *types.Array:
			i = ex.coerce(st, ex.materialize(i, tInt), tInt)
			ex.safetyOb(st, "bounds", l.Pos(), and(ge(i.Term, intLit(0)), lt(i.Term, intLit(u.Len()))))
			nv := ex.coerce(st, v, u.Elem())
			ex.assign(st, l.X, &Val{T: x.T, Term: store(x.Term, i.Term, nv.Term)}, false)
		case *types.Map:
			ex.nilCheck(st, x, l.Pos(), "map store")
			k := ex.coerce(st, i, u.Key())
			nv := ex.coerce(st, v, u.Elem())
			if nv.Term == nil {
				nv = &Val{T: u.Elem(), Term: ex.funcRef(st, nv)}
			}
			if k.Term != nil && nv.Term != nil {
				ex.mapStore(st, u, x.Term, k.Term, nv.Term)
			}
		default:
			ex.unsupported(l.Pos(), "index assignment")
		}
	case *ast.StarExpr:
		p := ex.expr(st, l.X)
		ex.storeDeref(st, p, v, l.Pos())
	default:
		ex.unsupported(lhs.Pos(), fmt.Sprintf("assignment target %T", lhs))
	}
}

// condFork splits st on a boolean term.
func (ex *Exec) condFork(st *State, c *Term) (*State, *State) {
	ex.paths++
	if isTrue(c) {
		return st, nil
	}
	if isFalse(c) {
		return nil, st
	}
	t := st
	f := st.clone()
	t.pc = append(t.pc, c)
	f.pc = append(f.pc, not(c))
	return t, f
}

func (ex *Exec) ifStmt(st *State, s *ast.IfStmt) []flow {
	if s.Init != nil {
		fl := ex.stmt(st, s.Init, "")
		if len(fl) != 1 || fl[0].kind != flowNormal {
			// init statements with forks: handle each
			var out []flow
			for _, f := range fl {
				if f.kind == flowNormal {
					s2 := *s
					s2.Init = nil
					out = append(out, ex.ifStmt(f.st, &s2)...)
				} else {
					out = append(out, f)
				}
			}
			return out
		}
		st = fl[0].st
	}
	if st.dead {
		return nil
	}
	c := ex.materialize(ex.expr(st, s.Cond), tBool).Term
	t, f := ex.condFork(st, c)
	var out []flow
	if t != nil {
		t.path = append(t.path, "T")
		out = append(out, ex.block(t, s.Body.List)...)
	}
	if f != nil {
		f.path = append(f.path, "F")
		if s.Else != nil {
			out = append(out, ex.stmt(f, s.Else, "")...)
		} else {
			out = append(out, flow{kind: flowNormal, st: f})
		}
	}
	return out
}

// breakable converts break flows (matching label) to normal flows.
func (ex *Exec) breakable(fl []flow, label string) []flow {
	var out []flow
	for _, f := range fl {
		if f.kind == flowBreak && (f.label == "" || f.label == label) {
			out = append(out, flow{kind: flowNormal, st: f.st})
		} else {
			out = append(out, f)
		}
	}
	return out
}

func (ex *Exec) switchStmt(st *State, s *ast.SwitchStmt, label string) []flow {
	if s.Init != nil {
		fl := ex.stmt(st, s.Init, "")
		if len(fl) != 1 || fl[0].kind != flowNormal {
			ex.unsupported(s.Pos(), "forking switch init")
			return fl
		}
		st = fl[0].st
	}
	var tag *Val
	if s.Tag != nil {
		tag = ex.expr(st, s.Tag)
		tag = ex.materialize(tag, nil)
	}
	var out []flow
	cur := st
	var deflt *ast.CaseClause
	for _, c := range s.Body.List {
		cc := c.(*ast.CaseClause)
		if cc.List == nil {
			deflt = cc
			continue
		}
		if cur == nil {
			break
		}
		var conds []*Term
		for _, e := range cc.List {
			v := ex.expr(cur, e)
			if tag != nil {
				conds = append(conds, ex.binop(cur, token.EQL, tag, v, e.Pos()).Term)
			} else {
				conds = append(conds, ex.materialize(v, tBool).Term)
			}
		}
		t, f := ex.condFork(cur, or(conds...))
		if t != nil {
			fl := ex.block(t, cc.Body)
			for _, x := range fl {
				if x.kind == flowNormal && len(cc.Body) > 0 {
					if b, ok := cc.Body[len(cc.Body)-1].(*ast.BranchStmt); ok && b.Tok == token.FALLTHROUGH {
						ex.unsupported(b.Pos(), "fallthrough")
					}
				}
			}
			out = append(out, fl...)
		}
		cur = f
	}
	if cur != nil {
		if deflt != nil {
			out = append(out, ex.block(cur, deflt.Body)...)
		} else {
			out = append(out, flow{kind: flowNormal, st: cur})
		}
	}
	return ex.breakable(out, label)
}

func (ex *Exec) selectStmt(st *State, s *ast.SelectStmt, label string) []flow {
	n := len(s.Body.List)
	hasDone := false
	for _, c := range s.Body.List {
		cc := c.(*ast.CommClause)
		if cc.Comm == nil {
			hasDone = true // default arm: never blocks
			continue
		}
		ast.Inspect(cc.Comm, func(x ast.Node) bool {
			if call, ok := x.(*ast.CallExpr); ok {
				if fn := ex.calleeOf(call); fn != nil && calleeKey(fn) == "context.Context.Done" {
					hasDone = true
				}
			}
			return true
		})
	}
	saveSel := ex.selHasDone
	defer func() { ex.selHasDone = saveSel }()
	choice := ex.fresh("select", SInt)
	st.assume(and(ge(choice, intLit(0)), lt(choice, intLit(int64(n)))))
	var out []flow
	for i, c := range s.Body.List {
		cc := c.(*ast.CommClause)
		b := st
		if i < n-1 {
			b = st.clone()
		}
		ex.paths++
		b.pc = append(b.pc, eq(choice, intLit(int64(i))))
		b.path = append(b.path, fmt.Sprintf("sel%d", i))
		var fl []flow
		if cc.Comm != nil {
			ex.selHasDone = &hasDone
			fl = ex.stmt(b, cc.Comm, "")
			ex.selHasDone = nil
		} else {
			fl = normal(b)
		}
		for _, f := range fl {
			if f.kind == flowNormal {
				out = append(out, ex.block(f.st, cc.Body)...)
			} else {
				out = append(out, f)
			}
		}
	}
	return ex.breakable(out, label)
}

func (ex *Exec) returnStmt(st *State, s *ast.ReturnStmt) []flow {
	// vacuity guard: every return statement of the function under contract must
	// be reachable on at least one path (a contradictory invariant or contract
	// silently kills the paths behind it)
	if n, ok := ex.returnOrds[s]; ok && len(st.frames) == 1 && ex.FSpec != nil && !ex.FSpec.DeadReturn[n] {
		ex.reachProbe(st, fmt.Sprintf("return#%d", n), s.Pos())
	}
	fr := st.frame()
	var rets []*Val
	if len(s.Results) == 0 {
		for _, o := range fr.results {
			rets = append(rets, st.vars[o])
		}
		return []flow{{kind: flowReturn, st: st, rets: rets}}
	}
	if len(s.Results) == 1 && fr.sig != nil && fr.sig.Results().Len() > 1 {
		v := ex.expr(st, s.Results[0])
		rets = v.Tuple
	} else {
		for _, r := range s.Results {
			rets = append(rets, ex.expr(st, r))
		}
	}
	if st.dead {
		return nil
	}
	if fr.sig != nil {
		for i := range rets {
			if i < fr.sig.Results().Len() {
				rets[i] = ex.coerce(st, rets[i], fr.sig.Results().At(i).Type())
			}
		}
	}
	for i, o := range fr.results {
		if i < len(rets) {
			st.vars[o] = rets[i]
		}
	}
	return []flow{{kind: flowReturn, st: st, rets: rets}}
}

// ---------------------------------------------------------------------
// loops

// loopPathOf returns the static ordinal path ("1", "1.2", ...) of a loop
// statement, numbered in source order within the verified body.
func (ex *Exec) loopPathOf(n ast.Stmt) string {
	if p, ok := ex.loopPaths[n]; ok {
		return p
	}
	return "?"
}

func (ex *Exec) indexLoops(body *ast.BlockStmt) {
	ex.loopPaths = map[ast.Stmt]string{}
	ex.returnOrds = map[*ast.ReturnStmt]int{}
	nret := 0
	ast.Inspect(body, func(x ast.Node) bool {
		switch r := x.(type) {
		case *ast.FuncLit:
			return false
		case *ast.ReturnStmt:
			nret++
			ex.returnOrds[r] = nret
		}
		return true
	})
	var walk func(n ast.Node, prefix string, counter *int)
	walk = func(n ast.Node, prefix string, counter *int) {
		ast.Inspect(n, func(x ast.Node) bool {
			if x == nil || x == n {
				return true
			}
			switch l := x.(type) {
			case *ast.ForStmt, *ast.RangeStmt:
				*counter++
				p := fmt.Sprint(*counter)
				if prefix != "" {
					p = prefix + "." + p
				}
				ex.loopPaths[l.(ast.Stmt)] = p
				inner := 0
				walk(l, p, &inner)
				return false
			}
			return true
		})
	}
	c := 0
	walk(body, "", &c)
}

type modSet struct {
	vars    map[types.Object]bool
	heaps   bool // some heap-affecting construct
	all     bool // unknown extent: havoc every heap
	names   map[string]bool // heap names that may be written
	mem     bool            // element memories (Mem$*) may be written
	memSorts map[string]bool // ...restricted to these element memories (nil = all)
	ghosts  bool            // ghost locals/fields may be written (hooks)
	events  map[string]bool // "kind:target" events that may occur in the body
	dynCall bool            // body calls through a function value (anything may happen)
	globals map[string]bool
}

// modified computes what a loop body may assign.
func (ex *Exec) modified(nodes ...ast.Node) *modSet {
	ms := &modSet{vars: map[types.Object]bool{}, globals: map[string]bool{}, names: map[string]bool{}, events: map[string]bool{}}
	fieldHeap := func(sel *ast.SelectorExpr) {
		if si := ex.Info.Selections[sel]; si != nil && si.Kind() == types.FieldVal {
			rt := si.Recv()
			base, _ := derefType(rt)
			// walk embedded path to the struct that owns the field
			idx := si.Index()
			for i := 0; i < len(idx)-1; i++ {
				if st, ok := base.Underlying().(*types.Struct); ok {
					base, _ = derefType(st.Field(idx[i]).Type())
				}
			}
			ms.names[ex.fieldHeapName(base, sel.Sel.Name)] = true
			return
		}
		ms.all = true
	}
	var visitLHS func(e ast.Expr)
	visitLHS = func(e ast.Expr) {
		switch l := ast.Unparen(e).(type) {
		case *ast.Ident:
			if o := ex.Info.ObjectOf(l); o != nil {
				if v, ok := o.(*types.Var); ok {
					if v.Pkg() != nil && v.Parent() == v.Pkg().Scope() {
						ms.globals[globalName(o)] = true
					} else {
						ms.vars[o] = true
					}
				}
			}
		case *ast.IndexExpr:
			if t := ex.typeOf(l.X); t != nil {
				if _, ok := t.Underlying().(*types.Array); ok {
					visitLHS(l.X)
					return
				}
			}
			ms.heaps = true
			ms.mem = true
			if t := ex.typeOf(l.X); t != nil {
				if sl, ok := t.Underlying().(*types.Slice); ok {
					n, _ := ex.memName(sl.Elem())
					ms.addMemSort(n)
				} else {
					ms.memAll()
				}
			}
		case *ast.SelectorExpr:
			ms.heaps = true
			// struct value in a local
			if t := ex.typeOf(l.X); t != nil {
				if _, isPtr := t.Underlying().(*types.Pointer); !isPtr {
					visitLHS(l.X)
					return
				}
			}
			fieldHeap(l)
		case *ast.StarExpr:
			ms.heaps = true
			ms.all = true
		}
	}
	for _, n := range nodes {
		if n == nil {
			continue
		}
		ast.Inspect(n, func(x ast.Node) bool {
			switch x := x.(type) {
			case *ast.AssignStmt:
				for _, l := range x.Lhs {
					visitLHS(l)
					ms.events["assign:"+exprText(ast.Unparen(l))] = true
				}
				ms.events["stmt:"+stmtKey(ex.nodeSrc(x))] = true
			case *ast.ExprStmt:
				ms.events["stmt:"+stmtKey(ex.nodeSrc(x))] = true
			case *ast.BranchStmt:
				ms.events["stmt:"+stmtKey(ex.nodeSrc(x))] = true
			case *ast.ReturnStmt:
				ms.events["stmt:"+stmtKey(ex.nodeSrc(x))] = true
			case *ast.IncDecStmt:
				visitLHS(x.X)
				ms.events["assign:"+exprText(ast.Unparen(x.X))] = true
				ms.events["stmt:"+stmtKey(ex.nodeSrc(x))] = true
			case *ast.RangeStmt:
				if x.Key != nil {
					visitLHS(x.Key)
				}
				if x.Value != nil {
					visitLHS(x.Value)
				}
			case *ast.CallExpr:
				ms.heaps = true
				ms.ghosts = true
				if id, ok := ast.Unparen(x.Fun).(*ast.Ident); ok && id.Name == "close" && len(x.Args) == 1 {
					if _, isB := ex.Info.ObjectOf(id).(*types.Builtin); isB {
						ms.events["close:"+strings.TrimSuffix(exprText(x.Args[0]), "()")] = true
					}
				}
				ex.callMods(x, ms)
				if fn := ex.calleeOf(x); fn != nil {
					for _, k := range hookKeys(fn) {
						ms.events["call:"+k] = true
					}
				} else if tv, ok := ex.Info.Types[x.Fun]; ok && !tv.IsType() {
					if id, isID := ast.Unparen(x.Fun).(*ast.Ident); !isID || func() bool { _, b := ex.Info.ObjectOf(id).(*types.Builtin); return !b }() {
						ms.dynCall = true
					}
				}
			case *ast.SendStmt:
				ms.heaps = true
				ms.ghosts = true
				ms.events["send:"+strings.TrimSuffix(exprText(x.Chan), "()")] = true
			case *ast.GoStmt:
				ms.heaps = true
				ms.ghosts = true
				ms.dynCall = true
			case *ast.DeferStmt:
				ms.dynCall = true
			case *ast.UnaryExpr:
				if x.Op == token.ARROW {
					ms.heaps = true
					ms.ghosts = true
					ms.names["CtxDone"] = true
					ms.events["recv:"+strings.TrimSuffix(exprText(x.X), "()")] = true
				}
			}
			return true
		})
	}
	return ms
}

// ghostsWrittenBy returns the ghost locals that hooks firing inside a loop
// body may assign (nil = unknown, havoc all).
func (ex *Exec) ghostsWrittenBy(ms *modSet) map[string]bool {
	if ex.FSpec == nil {
		return map[string]bool{}
	}
	if ms.dynCall {
		return nil
	}
	out := map[string]bool{}
	for _, h := range ex.FSpec.Hooks {
		fire := false
		switch h.Kind {
		case "call", "enter":
			fire = ms.events["call:"+h.Target]
		case "send", "recv":
			fire = ms.events[h.Kind+":"+strings.TrimSuffix(h.Target, "()")]
		case "close":
			fire = ms.events["close:"+strings.TrimSuffix(h.Target, "()")]
		case "exit":
			fire = false
		case "after", "before":
			fire = ms.events["stmt:"+stmtKey(h.Target)]
		case "assign":
			fire = ms.events["assign:"+h.Target]
		default:
			fire = true // go / close: not tracked precisely
		}
		if !fire {
			continue
		}
		stmts, err := parseGhostStmts(h.Body)
		if err != nil {
			return nil
		}
		for _, s := range stmts {
			ast.Inspect(s, func(x ast.Node) bool {
				switch a := x.(type) {
				case *ast.AssignStmt:
					for _, l := range a.Lhs {
						if id, ok := l.(*ast.Ident); ok {
							out[id.Name] = true
						}
					}
				case *ast.IncDecStmt:
					if id, ok := a.X.(*ast.Ident); ok {
						out[id.Name] = true
					}
				}
				return true
			})
		}
	}
	return out
}

func (ms *modSet) addMemSort(n string) {
	if ms.memSorts == nil {
		ms.memSorts = map[string]bool{}
	}
	if !ms.memSorts["*"] {
		ms.memSorts[n] = true
	}
}

func (ms *modSet) memAll() { ms.memSorts = map[string]bool{"*": true} }

func (ms *modSet) memHit(k string) bool {
	if !ms.mem {
		return false
	}
	if strings.HasPrefix(k, "Map$") || strings.HasPrefix(k, "Box$") {
		return ms.memSorts == nil || ms.memSorts["*"]
	}
	if !strings.HasPrefix(k, "Mem$") {
		return false
	}
	return ms.memSorts == nil || ms.memSorts["*"] || ms.memSorts[k]
}

// callMods records which heaps a call may write, consistently with the frame
// assumptions made at call sites.
func (ex *Exec) callMods(c *ast.CallExpr, ms *modSet) {
	fun := ast.Unparen(c.Fun)
	if id, ok := fun.(*ast.Ident); ok {
		if b, ok := ex.Info.ObjectOf(id).(*types.Builtin); ok {
			switch b.Name() {
			case "append", "copy", "make":
				ms.mem = true
				if len(c.Args) > 0 {
					if t := ex.typeOf(c.Args[0]); t != nil {
						if sl, ok := t.Underlying().(*types.Slice); ok {
							n, _ := ex.memName(sl.Elem())
							ms.addMemSort(n)
							return
						}
					}
				}
				ms.memAll()
			}
			return
		}
	}
	if tv, ok := ex.Info.Types[c.Fun]; ok && tv.IsType() {
		// conversions between strings and byte slices allocate byte memory
		involves := func(t types.Type) bool {
			if t == nil {
				return false
			}
			_, isSlice := t.Underlying().(*types.Slice)
			return isSlice || isString(t)
		}
		var at types.Type
		if len(c.Args) == 1 {
			at = ex.typeOf(c.Args[0])
		}
		if involves(tv.Type) && involves(at) && !types.Identical(tv.Type.Underlying(), at.Underlying()) {
			ms.mem = true
			ms.addMemSort("Mem$" + smtName(SByte))
		}
		return
	}
	fn := ex.calleeOf(c)
	if fn == nil {
		return
	}
	key := calleeKey(fn)
	switch key {
	case "sync.Mutex.Lock", "sync.RWMutex.Lock", "sync.RWMutex.RLock", "sync.Mutex.Unlock", "sync.RWMutex.Unlock", "sync.RWMutex.RUnlock":
		ms.all = true
		return
	case "context.Context.Err", "context.Cause", "context.Context.Done":
		ms.names["CtxDone"] = true
		return
	}
	if libWriters[key] {
		ms.mem = true
		ms.addMemSort("Mem$" + smtName(SByte))
	}
	if _, ok := libModels[key]; ok {
		ms.mem = true
		ms.addMemSort("Mem$" + smtName(SByte))
		if key == "bytes.Split" {
			ms.addMemSort("Mem$" + smtName(SSlice))
		}
	}
	if fs, _ := ex.lookupFuncSpec(fn); fs != nil {
		for _, m := range fs.Modifies {
			if strings.HasPrefix(m, "Mem(") {
				ms.mem = true
				ms.memAll()
			} else {
				ms.all = true
			}
		}
	}
}

// preTouch creates (with their entry symbols) the heaps a loop body mentions,
// so that havocLoop can havoc them: a heap first touched inside the body would
// otherwise wrongly keep its function-entry value on an arbitrary iteration.
func (ex *Exec) preTouch(st *State, nodes ...ast.Node) {
	for _, n := range nodes {
		if n == nil {
			continue
		}
		ast.Inspect(n, func(x ast.Node) bool {
			switch e := x.(type) {
			case *ast.SelectorExpr:
				if si := ex.Info.Selections[e]; si != nil && si.Kind() == types.FieldVal {
					base, _ := derefType(si.Recv())
					idx := si.Index()
					for i := 0; i < len(idx); i++ {
						stt, ok := base.Underlying().(*types.Struct)
						if !ok {
							break
						}
						f := stt.Field(idx[i])
						ex.heap(st, ex.fieldHeapName(base, f.Name()), arrSort(SInt, ex.sortOf(f.Type())))
						base, _ = derefType(f.Type())
					}
				}
			case *ast.IndexExpr:
				if t := ex.typeOf(e.X); t != nil {
					if sl, ok := t.Underlying().(*types.Slice); ok {
						ex.mem(st, sl.Elem())
					}
				}
			case *ast.RangeStmt:
				if t := ex.typeOf(e.X); t != nil {
					if sl, ok := t.Underlying().(*types.Slice); ok {
						ex.mem(st, sl.Elem())
					}
				}
			case *ast.CallExpr:
				if t := ex.typeOf(e); t != nil {
					if sl, ok := t.Underlying().(*types.Slice); ok {
						ex.mem(st, sl.Elem())
					}
				}
			}
			return true
		})
	}
	// ghost fields of the package's annotated types
	for _, ts := range ex.U.TSpecs {
		if o := ex.U.Pkg.Types.Scope().Lookup(ts.Name); o != nil {
			for _, g := range ts.Ghosts {
				gt := ex.parseSpecType(g.Type, ex.U)
				ex.heap(st, ex.fieldHeapName(o.Type(), g.Name), arrSort(SInt, ex.sortOf(gt)))
			}
		}
	}
	ex.heap(st, "CtxDone", arrSort(SInt, SBool))
	ex.mem(st, tByte)
}

func (ex *Exec) recordLoopPre(st *State, path string) {
	snap := st.clone()
	n := map[string]*State{}
	for k, v := range st.loopPre {
		n[k] = v
	}
	n[path] = snap
	st.loopPre = n
}

// havocLoop havocs everything the loop may modify.
func (ex *Exec) havocLoop(st *State, ms *modSet) {
	var objs []types.Object
	for o := range ms.vars {
		objs = append(objs, o)
	}
	sort.Slice(objs, func(i, j int) bool { return objs[i].Pos() < objs[j].Pos() })
	for _, o := range objs {
		if old, ok := st.vars[o]; ok {
			if old.Term == nil {
				continue // closures are not reassigned in loops we handle
			}
			st.vars[o] = ex.freshVal(st, o.Name(), o.Type())
		}
	}
	for g := range ms.globals {
		if cur, ok := st.heaps[g]; ok {
			st.heaps[g] = ex.fresh(g, cur.S)
		}
	}
	if ms.heaps {
		var names []string
		for k := range st.heaps {
			names = append(names, k)
		}
		sort.Strings(names)
		for _, k := range names {
			if k == "$alloc" {
				a := st.heaps[k]
				n := ex.fresh("alloc", SInt)
				st.assume(ge(n, a))
				st.heaps[k] = n
				continue
			}
			if strings.HasPrefix(k, "G$") {
				continue
			}
			isGhostField := false
			if ms.ghosts && strings.HasPrefix(k, "H$") {
				for _, u := range ex.W.Units {
					for _, ts := range u.TSpecs {
						for _, g := range ts.Ghosts {
							if strings.HasSuffix(k, "."+ts.Name+"$"+g.Name) {
								isGhostField = true
							}
						}
					}
				}
			}
			if ms.all || ms.names[k] || isGhostField || ms.memHit(k) {
				ex.havocHeap(st, k)
			}
		}
	}
	{
		// ghost locals may be changed by hooks (also in bodies that touch no heap)
		var gn []string
		for k := range st.ghost {
			gn = append(gn, k)
		}
		sort.Strings(gn)
		mayWrite := ex.ghostsWrittenBy(ms)
		for _, k := range gn {
			g := st.ghost[k]
			if ex.ghostConst[k] {
				continue
			}
			if mayWrite == nil {
				// extent unknown: only bodies with calls/sends/receives run monitors
				if !ms.ghosts {
					continue
				}
			} else if !mayWrite[k] {
				// (a monitor anchored on a plain assignment in the body writes
				// ghosts too, even when the body has no call at all)
				continue
			}
			st.ghost[k] = &Val{T: g.T, Term: ex.fresh("ghost."+k, g.Term.S)}
		}
	}
}

// checkInvs asserts or assumes the loop invariants.
func (ex *Exec) loopInvs(st *State, ls *LoopSpec, path, phase string, assume bool, pos token.Pos, shadow []string, counter string, k *Term) {
	if ls == nil {
		return
	}
	saved := map[string]types.Object{}
	for _, n := range shadow {
		if o, ok := st.names[n]; ok {
			saved[n] = o
			delete(st.names, n)
		}
	}
	var savedBound *Val
	hadBound := false
	if counter != "" && k != nil {
		savedBound, hadBound = st.bound[counter]
		st.bound[counter] = &Val{T: tInt, Term: k}
	}
	savePL := ex.specPreferLocals
	ex.specPreferLocals = true
	for i, c := range ls.Invs {
		label := labelOr(c.Label, fmt.Sprint(i+1))
		where := fmt.Sprintf("%s:%d loop %s invariant %s", c.File, c.Line, path, label)
		g := ex.evalSpecBool(st, c.Expr, ex.U, where)
		ex.tagHyp(g, label)
		if assume {
			st.assume(g)
		} else {
			if phase == "preserve" && ls.From != nil {
				ex.curOnly = ls.From[label]
			}
			ex.oblige(st, "inv"+path+"."+phase, label, pos, g, c.Props)
			ex.curOnly = nil
			st.assume(g)
		}
	}
	ex.specPreferLocals = savePL
	if counter != "" && k != nil {
		if hadBound {
			st.bound[counter] = savedBound
		} else {
			delete(st.bound, counter)
		}
	}
	for n, o := range saved {
		st.names[n] = o
	}
}

// loopHints: facts proved from the invariants at the loop head (each is an
// obligation of its own) and then available to the body - proof staging.
func (ex *Exec) loopHints(st *State, ls *LoopSpec, path string, pos token.Pos, shadow []string, counter string, k *Term) {
	if ls == nil || (len(ls.Hints) == 0 && len(ls.Applies) == 0) {
		return
	}
	saved := map[string]types.Object{}
	for _, n := range shadow {
		if o, ok := st.names[n]; ok {
			saved[n] = o
			delete(st.names, n)
		}
	}
	if counter != "" && k != nil {
		st.bound[counter] = &Val{T: tInt, Term: k}
	}
	savePL := ex.specPreferLocals
	ex.specPreferLocals = true
	for _, c := range ls.Applies {
		st.assume(ex.lemmaInstance(st, c.Expr, fmt.Sprintf("%s:%d loop %s apply", c.File, c.Line, path)))
	}
	for i, c := range ls.Hints {
		label := labelOr(c.Label, fmt.Sprint(i+1))
		g := ex.evalSpecBool(st, c.Expr, ex.U, fmt.Sprintf("%s:%d loop %s hint %s", c.File, c.Line, path, label))
		ex.oblige(st, "hint"+path, label, pos, g, c.Props)
		st.assume(g)
	}
	ex.specPreferLocals = savePL
	if counter != "" && k != nil {
		delete(st.bound, counter)
	}
	for n, o := range saved {
		st.names[n] = o
	}
}

func (ex *Exec) evalDecr(st *State, ls *LoopSpec, path string, shadow []string, counter string, k *Term) *Term {
	if ls == nil || ls.Decr == nil {
		return nil
	}
	saved := map[string]types.Object{}
	for _, n := range shadow {
		if o, ok := st.names[n]; ok {
			saved[n] = o
			delete(st.names, n)
		}
	}
	if counter != "" && k != nil {
		st.bound[counter] = &Val{T: tInt, Term: k}
		defer delete(st.bound, counter)
	}
	savePL := ex.specPreferLocals
	ex.specPreferLocals = true
	v := ex.evalSpec(st, ls.Decr.Expr, ex.U, fmt.Sprintf("%s:%d loop %s decreases", ls.Decr.File, ls.Decr.Line, path))
	ex.specPreferLocals = savePL
	for n, o := range saved {
		st.names[n] = o
	}
	return ex.materialize(v, tInt).Term
}

func (ex *Exec) loopSpec(path string) *LoopSpec {
	if ex.FSpec == nil {
		return nil
	}
	ls := ex.FSpec.Loops[path]
	if ls != nil {
		ex.loopHit[path] = true
	}
	return ls
}

func (ex *Exec) forStmt(st *State, s *ast.ForStmt, label string) []flow {
	if s.Init != nil {
		fl := ex.stmt(st, s.Init, "")
		if len(fl) != 1 || fl[0].kind != flowNormal {
			ex.unsupported(s.Pos(), "forking loop init")
			return fl
		}
		st = fl[0].st
	}
	path := ex.loopPathOf(s)
	ls := ex.loopSpec(path)
	ex.preTouch(st, s.Body, s.Post, s.Cond)
	ex.recordLoopPre(st, path)
	ex.loopInvs(st, ls, path, "init", false, s.Pos(), nil, "", nil)
	ms := ex.modified(s.Body, s.Post, s.Cond)
	ex.preTouch(st, s.Body, s.Post, s.Cond)
	ex.havocLoop(st, ms)
	ex.loopInvs(st, ls, path, "", true, s.Pos(), nil, "", nil)
	ex.loopHints(st, ls, path, s.Pos(), nil, "", nil)
	ex.reachProbe(st, "loop"+path, s.Pos())
	var out []flow
	var body, exit *State
	if s.Cond != nil {
		c := ex.materialize(ex.expr(st, s.Cond), tBool).Term
		body, exit = ex.condFork(st, c)
	} else {
		body = st
	}
	if exit != nil {
		exit.path = append(exit.path, "exit"+path)
		out = append(out, flow{kind: flowNormal, st: exit})
	}
	if body != nil {
		body.path = append(body.path, "loop"+path)
		d0 := ex.evalDecr(body, ls, path, nil, "", nil)
		for _, f := range ex.block(body, s.Body.List) {
			switch {
			case f.kind == flowNormal || (f.kind == flowContinue && (f.label == "" || f.label == label)):
				e := f.st
				if s.Post != nil {
					pf := ex.stmt(e, s.Post, "")
					if len(pf) != 1 {
						continue
					}
					e = pf[0].st
				}
				ex.loopInvs(e, ls, path, "preserve", false, s.Pos(), nil, "", nil)
				if d0 != nil {
					d1 := ex.evalDecr(e, ls, path, nil, "", nil)
					ex.oblige(e, "dec"+path, "", s.Pos(), and(ge(d0, intLit(0)), lt(d1, d0)), ls.Decr.Props)
				}
			case f.kind == flowBreak && (f.label == "" || f.label == label):
				out = append(out, flow{kind: flowNormal, st: f.st})
			default:
				out = append(out, f)
			}
		}
	}
	return out
}

func (ex *Exec) rangeStmt(st *State, s *ast.RangeStmt, label string) []flow {
	path := ex.loopPathOf(s)
	ls := ex.loopSpec(path)
	counter := ""
	if ls != nil && ls.Counter != "" {
		counter = ls.Counter
	}
	keyName := ""
	if id, ok := s.Key.(*ast.Ident); ok && id.Name != "_" {
		keyName = id.Name
	}
	if counter == "" {
		counter = keyName
	}
	if counter == "" {
		counter = "k"
	}
	var shadow []string
	if keyName != "" {
		shadow = append(shadow, keyName)
	}
	if id, ok := s.Value.(*ast.Ident); ok && id.Name != "_" {
		shadow = append(shadow, id.Name)
	}
	// what is ranged over?
	type iterKind int
	const (
		itSlice iterKind = iota
		itArray
		itInt
		itChunk
		itOpaque
		itString
	)
	kind := itOpaque
	var x *Val
	var chunkN *Term
	xt := ex.typeOf(s.X)
	if call, ok := ast.Unparen(s.X).(*ast.CallExpr); ok {
		if fn := ex.calleeOf(call); fn != nil && calleeKey(fn) == "slices.Chunk" {
			kind = itChunk
			x = ex.expr(st, call.Args[0])
			n := ex.coerce(st, ex.materialize(ex.expr(st, call.Args[1]), tInt), tInt)
			chunkN = n.Term
			ex.safetyOb(st, "chunksize", s.Pos(), ge(chunkN, intLit(1)))
			st.assume(ge(chunkN, intLit(1)))
			ex.W.Trusted["iterator contract: slices.Chunk(s,n) yields s[k*n : min((k+1)*n,len(s)) : same] for k = 0,1,... while k*n < len(s); panics if n < 1"] = true
		}
	}
	if kind == itOpaque && xt != nil {
		switch u := xt.Underlying().(type) {
		case *types.Slice:
			kind = itSlice
			x = ex.expr(st, s.X)
		case *types.Array:
			kind = itArray
			x = ex.expr(st, s.X)
		case *types.Pointer:
			if _, ok := u.Elem().Underlying().(*types.Array); ok {
				kind = itArray
				p := ex.expr(st, s.X)
				x = ex.deref(st, p, s.Pos())
			}
		case *types.Basic:
			if u.Info()&types.IsInteger != 0 {
				kind = itInt
				x = ex.coerce(st, ex.materialize(ex.expr(st, s.X), tInt), tInt)
			} else if u.Info()&types.IsString != 0 {
				kind = itString
				x = ex.materialize(ex.expr(st, s.X), tString)
			}
		default:
			x = ex.expr(st, s.X)
		}
	}
	if st.dead {
		return nil
	}
	var total *Term // number of iterations, if known
	switch kind {
	case itSlice:
		total = ex.sLen(x.Term)
	case itArray:
		total = intLit(x.T.Underlying().(*types.Array).Len())
	case itInt:
		total = x.Term
	case itChunk:
		// ceil(len/n)
		total = nil
	}
	// small constant-length array ranges without a loop contract are unrolled
	if kind == itArray && ls == nil {
		if n := x.T.Underlying().(*types.Array).Len(); n <= 8 {
			return ex.unrollArrayRange(st, s, label, x, int(n))
		}
	}
	k0 := intLit(0)
	ex.preTouch(st, s.Body)
	ex.recordLoopPre(st, path)
	if x != nil && x.Term != nil {
		nr := map[string]*Val{}
		for k, v := range st.loopRanged {
			nr[k] = v
		}
		nr[path] = x
		st.loopRanged = nr
	}
	ex.loopInvs(st, ls, path, "init", false, s.Pos(), shadow, counter, k0)
	ms := ex.modified(s.Body)
	// the key/value variables are assigned by the loop itself
	for _, kv := range []ast.Expr{s.Key, s.Value} {
		if id, ok := kv.(*ast.Ident); ok && id.Name != "_" {
			if o := ex.Info.ObjectOf(id); o != nil {
				ms.vars[o] = true
			}
		}
	}
	ex.havocLoop(st, ms)
	k := ex.fresh(counter, SInt)
	st.assume(ge(k, intLit(0)))
	if total != nil {
		st.assume(le(k, total))
	}
	if kind == itChunk {
		// k chunks consumed so far: (k-1)*n < len unless k == 0
		st.assume(or(eq(k, intLit(0)), lt(mul(sub(k, intLit(1)), chunkN), ex.sLen(x.Term))))
	}
	ex.loopInvs(st, ls, path, "", true, s.Pos(), shadow, counter, k)
	ex.loopHints(st, ls, path, s.Pos(), shadow, counter, k)
	ex.reachProbe(st, "loop"+path, s.Pos())
	var cond *Term
	switch kind {
	case itSlice, itArray, itInt:
		cond = lt(k, total)
	case itChunk:
		cond = lt(mul(k, chunkN), ex.sLen(x.Term))
	default:
		cond = ex.fresh("more", SBool)
	}
	body, exit := ex.condFork(st, cond)
	var out []flow
	if exit != nil {
		exit.path = append(exit.path, "exit"+path)
		// the final counter value stays nameable after the loop
		if _, clash := exit.bound[counter]; !clash && keyName != counter {
			exit.bound[counter] = &Val{T: tInt, Term: k}
		}
		out = append(out, flow{kind: flowNormal, st: exit})
	}
	if body == nil {
		return out
	}
	body.path = append(body.path, "loop"+path)
	define := s.Tok == token.DEFINE
	setKV := func(key, val *Val) {
		if s.Key != nil && key != nil {
			ex.assign(body, s.Key, key, define)
		}
		if s.Value != nil && val != nil {
			ex.assign(body, s.Value, val, define)
		}
	}
	switch kind {
	case itSlice:
		el := x.T.Underlying().(*types.Slice).Elem()
		v := &Val{T: el, Term: ex.sliceElem(body, x.Term, k, el)}
		ex.wf(body, v)
		setKV(&Val{T: tInt, Term: k}, v)
	case itArray:
		el := x.T.Underlying().(*types.Array).Elem()
		setKV(&Val{T: tInt, Term: k}, &Val{T: el, Term: sel(x.Term, k)})
	case itInt:
		setKV(&Val{T: tInt, Term: k}, nil)
	case itChunk:
		lo := mul(k, chunkN)
		hi := ite(le(add(lo, chunkN), ex.sLen(x.Term)), add(lo, chunkN), ex.sLen(x.Term))
		ch := ex.mkSlice(body, ex.sRef(x.Term), add(ex.sOff(x.Term), lo), sub(hi, lo), sub(hi, lo))
		// range-over-func: the single iteration variable is the Key
		setKV(&Val{T: x.T, Term: ch}, nil)
	case itString:
		setKV(&Val{T: tInt, Term: ex.fresh("ridx", SInt)}, &Val{T: types.Typ[types.Rune], Term: ex.fresh("rune", SInt)})
	default:
		// opaque iteration: fresh key/value of the declared types
		if s.Key != nil {
			if t := ex.typeOf(s.Key); t != nil {
				ex.assign(body, s.Key, ex.freshVal(body, "rkey", t), define)
			} else if id, ok := s.Key.(*ast.Ident); ok {
				if o := ex.Info.Defs[id]; o != nil {
					ex.assign(body, s.Key, ex.freshVal(body, "rkey", o.Type()), define)
				}
			}
		}
		if s.Value != nil {
			if id, ok := s.Value.(*ast.Ident); ok {
				if o := ex.Info.ObjectOf(id); o != nil {
					ex.assign(body, s.Value, ex.freshVal(body, "rval", o.Type()), define)
				}
			}
		}
	}
	d0 := ex.evalDecr(body, ls, path, nil, counter, k)
	bindCounter := false
	if _, clash := body.bound[counter]; !clash && keyName != counter {
		body.bound[counter] = &Val{T: tInt, Term: k}
		bindCounter = true
	}
	for _, f := range ex.block(body, s.Body.List) {
		if f.st != nil && bindCounter {
			delete(f.st.bound, counter)
		}
		switch {
		case f.kind == flowNormal || (f.kind == flowContinue && (f.label == "" || f.label == label)):
			k1 := add(k, intLit(1))
			ex.loopInvs(f.st, ls, path, "preserve", false, s.Pos(), shadow, counter, k1)
			if d0 != nil {
				d1 := ex.evalDecr(f.st, ls, path, shadow, counter, k1)
				ex.oblige(f.st, "dec"+path, "", s.Pos(), and(ge(d0, intLit(0)), lt(d1, d0)), ls.Decr.Props)
			}
		case f.kind == flowBreak && (f.label == "" || f.label == label):
			out = append(out, flow{kind: flowNormal, st: f.st})
		default:
			out = append(out, f)
		}
	}
	return out
}

// unrollArrayRange executes `for i, v := range arr` for a short array by
// unrolling (the range expression is evaluated once, as Go does).
func (ex *Exec) unrollArrayRange(st *State, s *ast.RangeStmt, label string, x *Val, n int) []flow {
	el := x.T.Underlying().(*types.Array).Elem()
	define := s.Tok == token.DEFINE
	cur := []*State{st}
	var out []flow
	for i := 0; i < n; i++ {
		var next []*State
		for _, c := range cur {
			if s.Key != nil {
				ex.assign(c, s.Key, &Val{T: tInt, Term: intLit(int64(i))}, define)
			}
			if s.Value != nil {
				ex.assign(c, s.Value, &Val{T: el, Term: sel(x.Term, intLit(int64(i)))}, define)
			}
			prefix := len(c.pc)
			fl := ex.mergeNormals(prefix, ex.block(c, s.Body.List))
			for _, f := range fl {
				switch {
				case f.kind == flowNormal || (f.kind == flowContinue && (f.label == "" || f.label == label)):
					next = append(next, f.st)
				case f.kind == flowBreak && (f.label == "" || f.label == label):
					out = append(out, flow{kind: flowNormal, st: f.st})
				default:
					out = append(out, f)
				}
			}
		}
		cur = next
	}
	for _, c := range cur {
		out = append(out, flow{kind: flowNormal, st: c})
	}
	return out
}

// calleeOf returns the static callee of a call, if any.
func (ex *Exec) calleeOf(call *ast.CallExpr) *types.Func {
	fun := ast.Unparen(call.Fun)
	if ix, ok := fun.(*ast.IndexExpr); ok {
		fun = ix.X
	}
	switch f := fun.(type) {
	case *ast.Ident:
		if fn, ok := ex.Info.ObjectOf(f).(*types.Func); ok {
			return fn
		}
	case *ast.SelectorExpr:
		if fn, ok := ex.Info.ObjectOf(f.Sel).(*types.Func); ok {
			return fn
		}
	}
	return nil
}

// reachProbe records a satisfiability probe of the current path condition.
func (ex *Exec) reachProbe(st *State, name string, pos token.Pos) {
	full := ex.FName + "/reach@" + name
	ob := ex.Obs[full]
	if ob == nil {
		ob = &Obligation{Name: full, Kind: "reach", Func: ex.FName, Props: ex.Props, Pos: ex.posStr(pos), Backend: "smt", IsReach: true}
		ex.Obs[full] = ob
		ex.ObOrd = append(ex.ObOrd, full)
	}
	ob.Queries = append(ob.Queries, &Query{Hyps: append([]*Term(nil), st.pc...), Goal: nil, Decls: ex.D, Path: strings.Join(st.path, ">")})
}
