package main

// calls.go - calls: conversions, builtins, contracts, closures, hooks, library models.

import (
	"os"
	"fmt"
	"go/ast"
	"go/constant"
	"go/token"
	"go/types"
	"strings"
)

func (ex *Exec) call(st *State, e *ast.CallExpr) []*Val {
	if ex.inSpec() {
		return ex.specCall(st, e)
	}
	// conversion?
	if tv, ok := ex.Info.Types[e.Fun]; ok && tv.IsType() {
		x := ex.expr(st, e.Args[0])
		return []*Val{ex.convert(st, x, tv.Type, e.Pos())}
	}
	// builtin?
	fun := ast.Unparen(e.Fun)
	if id, ok := fun.(*ast.Ident); ok {
		if b, ok := ex.Info.ObjectOf(id).(*types.Builtin); ok {
			return ex.builtin(st, b.Name(), e)
		}
	}
	fn := ex.expr(st, e.Fun)
	if t := ex.typeOf(e.Fun); t != nil {
		if _, ok := t.Underlying().(*types.Signature); ok && (fn.Fn != nil || fn.Lit != nil) {
			nf := *fn
			nf.T = t
			fn = &nf
		}
	}
	args := ex.evalArgs(st, e, fn)
	return ex.apply(st, fn, args, e)
}

// evalArgs evaluates call arguments, packing variadics into a slice value.
func (ex *Exec) evalArgs(st *State, e *ast.CallExpr, fn *Val) []*Val {
	var args []*Val
	if len(e.Args) == 1 {
		if _, ok := e.Args[0].(*ast.CallExpr); ok {
			v := ex.expr(st, e.Args[0])
			if v.Tuple != nil {
				return v.Tuple
			}
			args = []*Val{v}
			return ex.packVariadic(st, e, fn, args)
		}
	}
	for _, a := range e.Args {
		args = append(args, ex.expr(st, a))
	}
	return ex.packVariadic(st, e, fn, args)
}

func (ex *Exec) sigOf(fn *Val) *types.Signature {
	if fn.Fn != nil {
		if fn.T != nil {
			if s, ok := fn.T.Underlying().(*types.Signature); ok && s.TypeParams().Len() == 0 {
				return s
			}
		}
		return fn.Fn.Type().(*types.Signature)
	}
	if fn.T != nil {
		if s, ok := fn.T.Underlying().(*types.Signature); ok {
			return s
		}
	}
	return nil
}

func (ex *Exec) packVariadic(st *State, e *ast.CallExpr, fn *Val, args []*Val) []*Val {
	sig := ex.sigOf(fn)
	if sig == nil {
		return args
	}
	np := sig.Params().Len()
	// coerce fixed params
	for i := 0; i < len(args) && i < np; i++ {
		if sig.Variadic() && i == np-1 {
			break
		}
		args[i] = ex.coerce(st, args[i], sig.Params().At(i).Type())
	}
	if !sig.Variadic() || e.Ellipsis.IsValid() {
		return args
	}
	vt := sig.Params().At(np - 1).Type().(*types.Slice)
	fixed := args
	var rest []*Val
	if len(args) >= np-1 {
		fixed = args[:np-1]
		rest = args[np-1:]
	}
	var sl *Term
	if len(rest) == 0 {
		sl = ex.nilSlice()
	} else {
		ref := ex.newRef(st)
		n := int64(len(rest))
		sl = ex.mkSlice(st, ref, intLit(0), intLit(n), intLit(n))
		for i, r := range rest {
			r = ex.coerce(st, r, vt.Elem())
			if r.Term == nil {
				r = &Val{T: vt.Elem(), Term: ex.funcRef(st, r)}
			}
			ex.sliceStore(st, sl, intLit(int64(i)), vt.Elem(), r.Term)
		}
	}
	out := append([]*Val(nil), fixed...)
	v := &Val{T: vt, Term: sl}
	v.Tuple = nil
	out = append(out, &Val{T: vt, Term: sl, Note: "variadic", Recv: nil})
	ex.variadicElems[sl.Op] = rest
	return out
}

// convert handles T(x).
func (ex *Exec) convert(st *State, x *Val, t types.Type, pos token.Pos) *Val {
	if isUntypedConst(x) {
		if isString(t) && x.Const != nil && x.Const.Kind().String() == "Int" {
			return &Val{T: t, Term: ex.fresh("runestr", SStr)}
		}
		return ex.materialize(x, t)
	}
	if x.Term == nil {
		nv := *x
		nv.T = t
		return &nv
	}
	from, to := x.Term.S, ex.sortOf(t)
	switch {
	case from == to && from != SSlice:
		nv := *x
		nv.T = t
		return &nv
	case from == SSlice && to == SSlice:
		// []byte <-> named slice types; []rune(s) etc. handled below
		if types.Identical(x.T.Underlying(), t.Underlying()) {
			nv := *x
			nv.T = t
			return &nv
		}
	case from == SByte && to == SInt:
		return &Val{T: t, Term: ex.b2i(x.Term)}
	case from == SInt && to == SByte:
		return &Val{T: t, Term: ex.i2b(x.Term)}
	case from == SSlice && to == SStr && isByteSlice(x.T):
		return &Val{T: t, Term: ex.bytesToString(st, x.Term)}
	case from == SStr && to == SSlice && isByteSlice(t):
		return &Val{T: t, Term: ex.stringToBytes(st, x.Term)}
	case to == SInt && isRefLike(t):
		return ex.coerce(st, x, t)
	}
	if from == SInt && to == SStr {
		return &Val{T: t, Term: ex.fresh("runestr", SStr)}
	}
	ex.unsupported(pos, fmt.Sprintf("conversion %s -> %s", x.T, t))
	v := ex.freshVal(st, "conv", t)
	return v
}

// strOf: the string denoted by a byte window (a pure function of the contents).
func (ex *Exec) strOf(arr, off, ln *Term) *Term {
	return ex.D.app("st.of", SStr, arr, off, ln)
}

func (ex *Exec) bytesToString(st *State, s *Term) *Term {
	r := ex.fresh("str", SStr)
	st.assume(eq(r, ex.strOf(sel(ex.mem(st, tByte), ex.sRef(s)), ex.sOff(s), ex.sLen(s))))
	st.assume(eq(ex.strLen(r), ex.sLen(s)))
	k := mk("k?", SInt)
	inner := sel(ex.mem(st, tByte), ex.sRef(s))
	st.assume(forall([]*Term{k}, implies(and(ge(k, intLit(0)), lt(k, ex.sLen(s))),
		eq(ex.strAt(r, k), sel(inner, ex.ix(ex.sOff(s), k)))), []*Term{ex.strAt(r, k)}))
	return r
}

func (ex *Exec) stringToBytes(st *State, s *Term) *Term {
	ref := ex.newRef(st)
	n := ex.strLen(s)
	sl := ex.mkSlice(st, ref, intLit(0), n, n)
	arr := ex.fresh("bytes", arrSort(SInt, SByte))
	k := mk("k?", SInt)
	st.assume(forall([]*Term{k}, implies(and(ge(k, intLit(0)), lt(k, n)), eq(sel(arr, k), ex.strAt(s, k))), []*Term{sel(arr, k)}))
	name, _ := ex.memName(tByte)
	st.heaps[name] = store(ex.mem(st, tByte), ref, arr)
	st.assume(eq(ex.strOf(arr, intLit(0), n), s))
	return sl
}

// ---------------------------------------------------------------------
// builtins

func (ex *Exec) builtin(st *State, name string, e *ast.CallExpr) []*Val {
	one := func(v *Val) []*Val { return []*Val{v} }
	switch name {
	case "len":
		x := ex.expr(st, e.Args[0])
		if p, ok := x.T.Underlying().(*types.Pointer); ok {
			if a, ok := p.Elem().Underlying().(*types.Array); ok {
				return one(&Val{T: tInt, Term: intLit(a.Len())})
			}
		}
		return one(ex.lenOf(st, x))
	case "cap":
		x := ex.expr(st, e.Args[0])
		if x.Term.S == SSlice {
			return one(&Val{T: tInt, Term: ex.sCap(x.Term)})
		}
		if a, ok := x.T.Underlying().(*types.Array); ok {
			return one(&Val{T: tInt, Term: intLit(a.Len())})
		}
		return one(&Val{T: tInt, Term: ex.D.app("chan.cap", SInt, x.Term)})
	case "append":
		return one(ex.appendBuiltin(st, e))
	case "make":
		t := ex.typeOf(e.Args[0])
		switch u := t.Underlying().(type) {
		case *types.Slice:
			ln := ex.coerce(st, ex.materialize(ex.expr(st, e.Args[1]), tInt), tInt).Term
			cp := ln
			if len(e.Args) > 2 {
				cp = ex.coerce(st, ex.materialize(ex.expr(st, e.Args[2]), tInt), tInt).Term
			}
			ex.safetyOb(st, "makelen", e.Pos(), and(ge(ln, intLit(0)), le(ln, cp)))
			ref := ex.newRef(st)
			sl := ex.mkSlice(st, ref, intLit(0), ln, cp)
			// zero contents
			z := ex.zero(u.Elem())
			mname, msort := ex.memName(u.Elem())
			arr := mk("(as const "+elemSort(msort)+")", elemSort(msort), z.Term)
			st.heaps[mname] = store(ex.mem(st, u.Elem()), ref, arr)
			return one(&Val{T: t, Term: sl})
		case *types.Chan:
			ref := ex.newRef(st)
			cp := intLit(0)
			if len(e.Args) > 1 {
				cp = ex.coerce(st, ex.materialize(ex.expr(st, e.Args[1]), tInt), tInt).Term
			}
			st.assume(eq(ex.D.app("chan.cap", SInt, ref), cp))
			return one(&Val{T: t, Term: ref})
		case *types.Map:
			ref := ex.newRef(st)
			ex.mapInitEmpty(st, u, ref)
			return one(&Val{T: t, Term: ref})
		}
	case "new":
		t := ex.typeOf(e.Args[0])
		ref := ex.newRef(st)
		if s, ok := t.Underlying().(*types.Struct); ok {
			for i := 0; i < s.NumFields(); i++ {
				f := s.Field(i)
				ex.writeField(st, ref, t, f.Name(), f.Type(), ex.zero(f.Type()).Term)
			}
		}
		return one(&Val{T: types.NewPointer(t), Term: ref})
	case "copy":
		dst := ex.expr(st, e.Args[0])
		src := ex.expr(st, e.Args[1])
		ex.havocSliceMem(st, dst)
		n := ex.fresh("copied", SInt)
		st.assume(and(ge(n, intLit(0)), le(n, ex.sLen(dst.Term))))
		_ = src
		return one(&Val{T: tInt, Term: n})
	case "panic":
		ex.expr(st, e.Args[0])
		ex.safetyOb(st, "unreachable", e.Pos(), tFalse)
		st.assume(tFalse)
		return nil
	case "close":
		ch := ex.expr(st, e.Args[0])
		ex.runHooks(st, "close", exprText(e.Args[0]), []*Val{ch}, nil, e.Pos())
		return nil
	case "delete":
		m := ex.expr(st, e.Args[0])
		k := ex.expr(st, e.Args[1])
		if mt, ok := m.T.Underlying().(*types.Map); ok && m.Term != nil {
			k = ex.coerce(st, k, mt.Key())
			if k.Term != nil {
				// deleting from a nil map is a no-op
				keep := st.clone()
				ex.mapDelete(st, mt, m.Term, k.Term)
				isNil := eq(m.Term, intLit(0))
				for _, hn := range []string{"Map$", "MapHas$"} {
					for name, h := range st.heaps {
						if strings.HasPrefix(name, hn) && keep.heaps[name] != nil && keep.heaps[name] != h {
							st.heaps[name] = ite(isNil, keep.heaps[name], h)
						}
					}
				}
			}
		}
		return nil
	case "min", "max":
		a, b := ex.unify(ex.expr(st, e.Args[0]), ex.expr(st, e.Args[1]))
		a, b = ex.materialize(a, nil), ex.materialize(b, nil)
		var c *Term
		if a.Term.S == SByte {
			c = mk("bvule", SBool, a.Term, b.Term)
		} else {
			c = le(a.Term, b.Term)
		}
		if name == "max" {
			c = not(c)
		}
		return one(&Val{T: a.T, Term: ite(c, a.Term, b.Term)})
	case "print", "println", "clear":
		for _, a := range e.Args {
			ex.expr(st, a)
		}
		return nil
	case "recover":
		return one(&Val{T: tAny, Term: ex.fresh("recovered", SInt)})
	}
	ex.unsupported(e.Pos(), "builtin "+name)
	t := ex.typeOf(e)
	if t == nil {
		return nil
	}
	return one(ex.freshVal(st, name, t))
}

func (ex *Exec) havocSliceMem(st *State, s *Val) {
	sl, ok := s.T.Underlying().(*types.Slice)
	if !ok || s.Term == nil {
		return
	}
	name, msort := ex.memName(sl.Elem())
	m := ex.mem(st, sl.Elem())
	old := sel(m, ex.sRef(s.Term))
	nw := ex.fresh("havocmem", elemSort(msort))
	// only the window [off, off+cap) may change
	k := mk("k?", SInt)
	st.assume(forall([]*Term{k}, implies(or(lt(k, ex.sOff(s.Term)), ge(k, add(ex.sOff(s.Term), ex.sCap(s.Term)))), eq(sel(nw, k), sel(old, k))), []*Term{sel(nw, k)}))
	st.heaps[name] = store(m, ex.sRef(s.Term), nw)
}

// appendBuiltin models append with in-place and reallocating cases merged by ite
// on the capacity test (no path fork).
func (ex *Exec) appendBuiltin(st *State, e *ast.CallExpr) *Val {
	s := ex.expr(st, e.Args[0])
	st0 := s
	slT, ok := s.T.Underlying().(*types.Slice)
	if !ok {
		// append(nil-typed...) etc.
		t := ex.typeOf(e)
		slT = t.Underlying().(*types.Slice)
		s = ex.coerce(st, s, t)
	}
	elem := slT.Elem()
	mname, msort := ex.memName(elem)
	innerSort := elemSort(msort)
	var addLen *Term
	type elemSrc struct {
		single *Term // one element
	}
	var singles []*Term
	var spread *Val
	if e.Ellipsis.IsValid() {
		spread = ex.expr(st, e.Args[1])
		if spread.Term.S == SStr {
			addLen = ex.strLen(spread.Term)
		} else {
			addLen = ex.sLen(spread.Term)
		}
	} else {
		for _, a := range e.Args[1:] {
			v := ex.coerce(st, ex.expr(st, a), elem)
			if v.Term == nil {
				v = &Val{T: elem, Term: ex.funcRef(st, v)}
			}
			singles = append(singles, v.Term)
		}
		addLen = intLit(int64(len(singles)))
	}
	oldLen := ex.sLen(s.Term)
	newLen := add(oldLen, addLen)
	fits := le(newLen, ex.sCap(s.Term))
	if n, ok := isIntLit(addLen); ok && n >= 1 && ex.clipped[s.Term.Op] {
		fits = tFalse // cap == len: appending always reallocates
	}
	m := ex.mem(st, elem)
	// in-place array: old inner with new elements stored at off+len+i
	inPlace := sel(m, ex.sRef(s.Term))
	baseIP := add(ex.sOff(s.Term), oldLen)
	// reallocated array: fresh, copy of old prefix, then new elements at len+i
	newRef := ex.newRef(st)
	realloc := ex.fresh("appendarr", innerSort)
	k := mk("k?", SInt)
	oldInner := sel(m, ex.sRef(s.Term))
	st.assume(forall([]*Term{k}, implies(and(ge(k, intLit(0)), lt(k, oldLen)),
		eq(sel(realloc, k), sel(oldInner, ex.ix(ex.sOff(s.Term), k)))), []*Term{sel(realloc, k)}))
	if spread == nil {
		rl := realloc
		for i, t := range singles {
			inPlace = store(inPlace, ex.ix(ex.sOff(s.Term), add(oldLen, intLit(int64(i)))), t)
			rl = store(rl, add(oldLen, intLit(int64(i))), t)
		}
		realloc = rl
	} else {
		// bulk: fresh arrays constrained by quantified facts
		ip2 := ex.fresh("appendip", innerSort)
		rl2 := ex.fresh("appendrl", innerSort)
		srcAt := func(i *Term) *Term {
			if spread.Term.S == SStr {
				return ex.strAt(spread.Term, i)
			}
			return sel(sel(m, ex.sRef(spread.Term)), ex.ix(ex.sOff(spread.Term), i))
		}
		st.assume(forall([]*Term{k}, eq(sel(ip2, k),
			ite(and(ge(k, baseIP), lt(k, add(baseIP, addLen))), srcAt(sub(k, baseIP)), sel(inPlace, k))), []*Term{sel(ip2, k)}))
		st.assume(forall([]*Term{k}, eq(sel(rl2, k),
			ite(and(ge(k, oldLen), lt(k, newLen)), srcAt(sub(k, oldLen)), sel(realloc, k))), []*Term{sel(rl2, k)}))
		inPlace, realloc = ip2, rl2
	}
	newCap := ex.fresh("newcap", SInt)
	st.assume(ge(newCap, newLen))
	res := ex.fresh("appended", SSlice)
	st.assume(eq(ex.sRef(res), ite(fits, ex.sRef(s.Term), newRef)))
	st.assume(eq(ex.sOff(res), ite(fits, ex.sOff(s.Term), intLit(0))))
	st.assume(eq(ex.sLen(res), newLen))
	st.assume(eq(ex.sCap(res), ite(fits, ex.sCap(s.Term), newCap)))
	// name the new memory so that later terms stay small
	newMem := ex.fresh(strings.TrimSuffix(mname, "@0"), m.S)
	st.assume(eq(newMem, ite(fits, store(m, ex.sRef(s.Term), inPlace), store(m, newRef, realloc))))
	st.heaps[mname] = newMem
	_ = st0
	return &Val{T: ex.typeOf(e), Term: res}
}

// ---------------------------------------------------------------------
// apply

// hookKeys returns the names under which a callee can be addressed in hooks.
func hookKeys(fn *types.Func) []string {
	k := calleeKey(fn)
	keys := []string{k}
	if i := strings.Index(k, "."); i >= 0 {
		keys = append(keys, k[i+1:])
	}
	// monitors name a callee as the source does (maps.Clone), whichever
	// package of that name it is
	if strings.HasPrefix(k, "xexp") {
		keys = append(keys, strings.TrimPrefix(k, "xexp"))
	}
	return keys
}

func (ex *Exec) apply(st *State, fn *Val, args []*Val, e *ast.CallExpr) []*Val {
	pos := token.NoPos
	if e != nil {
		pos = e.Pos()
	}
	// closure literal: inline
	if fn.Lit != nil {
		if e == nil {
			return ex.inlineClosure(st, fn, args, pos)
		}
		// monitors may name the closure variable being called
		nm := exprText(e.Fun)
		ex.runHooks(st, "enter", nm, args, nil, pos)
		res := ex.inlineClosure(st, fn, args, pos)
		ex.runHooks(st, "call", nm, args, res, pos)
		return res
	}
	if fn.Fn != nil {
		if fn.Recv != nil {
			args = append([]*Val{fn.Recv}, args...)
		}
		return ex.applyFunc(st, fn.Fn, args, e, pos)
	}
	// opaque function value
	name := ""
	if e != nil {
		name = exprText(e.Fun)
	}
	if fn.Term != nil {
		ex.safetyOb(st, "nil", pos, not(eq(fn.Term, intLit(0))))
		st.assume(not(eq(fn.Term, intLit(0))))
	}
	var results []*Val
	if sig := ex.sigOf(fn); sig != nil {
		for i := 0; i < sig.Results().Len(); i++ {
			results = append(results, ex.freshVal(st, "ret."+name, sig.Results().At(i).Type()))
		}
	}
	ex.W.Abstr["call through function value "+name+" in "+ex.FName+" (no effect on caller-visible state assumed)"] = true
	ex.runHooks(st, "enter", name, args, nil, pos)
	ex.runHooks(st, "call", name, args, results, pos)
	return results
}

func (ex *Exec) lookupFuncSpec(fn *types.Func) (*FuncSpec, *Unit) {
	key := calleeKey(fn)
	if fn.Pkg() != nil {
		if u := ex.W.Units[fn.Pkg().Path()]; u != nil {
			short := key[strings.Index(key, ".")+1:]
			if fs := u.FSpecs[short]; fs != nil {
				return fs, u
			}
			return nil, u
		}
	}
	if fs := ex.W.LibFuncs[key]; fs != nil {
		return fs, nil
	}
	return nil, nil
}

func (ex *Exec) applyFunc(st *State, fn *types.Func, args []*Val, e *ast.CallExpr, pos token.Pos) []*Val {
	key := calleeKey(fn)
	sig := fn.Type().(*types.Signature)
	// generic callee: result types come from the instantiated signature
	ex.instSig = nil
	if e != nil && sig.TypeParams().Len() > 0 {
		if is, ok := ex.typeOf(e.Fun).(*types.Signature); ok && is.Results().Len() == sig.Results().Len() {
			ex.instSig = is
		}
	}
	defer func() { ex.instSig = nil }()
	// receiver nil-ness
	if sig.Recv() != nil && len(args) > 0 && args[0].Term != nil && args[0].Term.S == SInt && isRefLike(args[0].T) {
		_, isIface := sig.Recv().Type().Underlying().(*types.Interface)
		repo := fn.Pkg() != nil && ex.W.Units[fn.Pkg().Path()] != nil
		if isIface || repo {
			fs, _ := ex.lookupFuncSpec(fn)
			if fs == nil || !fs.Nilable[firstOr(fs.Params, "")] {
				ex.safetyOb(st, "nil", pos, not(eq(args[0].Term, intLit(0))))
				st.assume(not(eq(args[0].Term, intLit(0))))
			}
		}
	}
	for _, k := range hookKeys(fn) {
		ex.runHooks(st, "enter", k, args, nil, pos)
	}
	// structured concurrency: errgroup-style Go/Wait
	if key == "errgroup.Group.Go" || key == "ctxerrgroup.Group.Go" {
		if len(args) == 2 && args[1].Lit != nil && e != nil {
			ex.spawnInGroup(st, e, args[1], pos)
			return nil
		}
	}
	if key == "errgroup.Group.Wait" || key == "ctxerrgroup.Group.Wait" {
		ex.joinGroup(st, e)
	}
	// Go-coded library models
	if m, ok := libModels[key]; ok {
		res, handled := m(ex, st, fn, args, e)
		if handled {
			ex.runHooksFn(st, fn, args, res, pos)
			if ex.exitAfterHooks {
				ex.exitAfterHooks = false
				st.assume(tFalse)
				st.dead = true
			}
			return res
		}
	}
	fs, u := ex.lookupFuncSpec(fn)
	var results []*Val
	if fs != nil {
		results = ex.applyContract(st, fn, fs, u, args, pos)
	} else if pureLib[key] && sig.Results().Len() == 1 {
		results = []*Val{ex.pureApp(st, fn, args)}
		ex.wf(st, results[0])
	} else if pureLib[key] && sig.Results().Len() > 1 {
		results = ex.pureAppN(st, fn, args)
	} else if rs, ok := ex.inlineDecl(st, fn, u, args, pos); ok {
		// a helper of the same package without a contract, straight-line and
		// not recursive: executed in place (so extracting a few statements
		// into a helper does not blind the caller's contract)
		results = rs
		ex.W.Abstr["repo function without contract inlined at its call sites: "+key] = true
	} else {
		for i := 0; i < sig.Results().Len(); i++ {
			rt := sig.Results().At(i).Type()
			if ex.instSig != nil {
				rt = ex.instSig.Results().At(i).Type()
			}
			results = append(results, ex.freshVal(st, "ret."+fn.Name(), rt))
		}
		if u != nil {
			ex.W.Abstr["repo function without contract: "+key+" (result unconstrained; no effect on caller-visible state assumed)"] = true
		} else {
			ex.W.Abstr["library function without contract: "+key+" (result unconstrained; no effect on caller-visible state assumed)"] = true
		}
		// a library function without a contract may write through its slice
		// arguments unless it is known not to (libReaders)
		if libWriters[key] || (u == nil && !libReaders[key]) {
			// the slice packed implicitly for a variadic parameter is a
			// temporary nobody else can see
			packed := -1
			if e != nil && sig.Variadic() && e.Ellipsis == token.NoPos {
				packed = len(args) - 1
			}
			for i, a := range args {
				if i == packed && !libWriters[key] {
					continue
				}
				if a.Term != nil && a.Term.S == SSlice {
					ex.havocSliceMem(st, a)
					if !libWriters[key] {
						ex.W.Abstr["library function without contract: "+key+" is assumed to be able to overwrite the elements of its slice arguments"] = true
					}
				}
			}
		}
	}
	ex.runHooksFn(st, fn, args, results, pos)
	return results
}

func firstOr(s []string, d string) string {
	if len(s) > 0 {
		return s[0]
	}
	return d
}

// pureLib: library functions that are deterministic and side-effect free;
// modelled as uninterpreted functions of their arguments.
var pureLib = map[string]bool{
	"strconv.FormatUint": true, "strconv.Itoa": true, "strconv.FormatInt": true,
	"strings.HasPrefix": true, "strings.HasSuffix": true, "strings.TrimSpace": true, "strings.TrimPrefix": true,
	"strings.TrimSuffix": true, "strings.Contains": true, "strings.ReplaceAll": true, "strings.ToLower": true,
	"strings.Cut": true, "strings.Split": true, "strings.Join": true,
	"filepath.Match": true, "filepath.Base": true, "filepath.Ext": true, "filepath.Dir": true, "filepath.Join": true,
	"net.JoinHostPort": true, "base64.Encoding.EncodeToString": true, "sha256.Sum256": true,
	"http.Request.PathValue": true, "http.Request.Context": true, "url.Values.Get": true, "http.Header.Get": true,
	"idna.ToASCII": true, "net.SplitHostPort": true, "net.Listener.Addr": true, "net.Addr.String": true,
	"http.Request.UserAgent": true, "netip.ParseAddrPort": true, "netip.AddrPort.Port": true, "netip.AddrPort.Addr": true,
	"netip.Addr.IsUnspecified": true, "netip.AddrPort.String": true,
	"x509.MarshalPKIXPublicKey": true, "base64.Encoding.DecodeString": true, "x509.ParseCertificate": true,
	"fs.FileMode.IsRegular": true, "fs.FileInfo.Mode": true, "fs.FileInfo.IsDir": true, "fs.FileInfo.ModTime": true,
	"time.Time.IsZero": true, "time.Time.Add": true, "os.File.Fd": true, "os.Getenv": true,
}

// libReaders: library functions known not to write through slice arguments.
var libReaders = map[string]bool{
	// io.Writer: "Write must not modify the slice data, even temporarily"
	"io.Writer.Write": true, "io.<iface>.Write": true, "bytes.Buffer.Write": true, "os.File.Write": true, "bufio.Writer.Write": true,
	"os.WriteFile": true, "io.WriteString": true,
	// fmt / log / slog read their operands
	"fmt.Fprintf": true, "fmt.Sprintf": true, "fmt.Errorf": true, "fmt.Fprint": true, "fmt.Fprintln": true, "fmt.Sprint": true,
	"log.Printf": true, "log.Fatalf": true, "log.Print": true,
	"slog.Logger.Info": true, "slog.Logger.Error": true, "slog.Logger.Debug": true, "slog.Logger.Warn": true, "slog.Logger.With": true, "slog.Group": true,
	"cmp.Or": true, "bytes.Equal": true, "bytes.NewReader": true, "bytes.NewBuffer": true, "subtle.ConstantTimeCompare": true,
	"bytes.HasPrefix": true, "bytes.HasSuffix": true, "bytes.TrimSpace": true, "bytes.Trim": true, "bytes.Count": true, "bytes.Contains": true,
	"pem.EncodeToMemory": true, "pem.Decode": true, "txtar.Parse": true, "txtar.Format": true, "tls.X509KeyPair": true,
	"x509.ParseCertificate": true, "x509.CreateCertificate": true, "sha256.Sum256": true, "hex.EncodeToString": true, "strings.Join": true,
}

var libWriters = map[string]bool{
	"io.<iface>.Read": true, "io.Reader.Read": true, "rand.Read": true, "io.ReadFull": true,
	"os.File.Read": true, "bufio.Reader.Read": true,
}

func (ex *Exec) runHooksFn(st *State, fn *types.Func, args, results []*Val, pos token.Pos) {
	for _, k := range hookKeys(fn) {
		ex.runHooks(st, "call", k, args, results, pos)
	}
}

// runHooks runs the contract's monitors for an event.
func (ex *Exec) runHooks(st *State, kind, target string, args, results []*Val, pos token.Pos) {
	if ex.FSpec == nil || ex.hookDepth > 0 {
		return
	}
	for _, h := range ex.FSpec.Hooks {
		if h.Kind != kind || strings.TrimSuffix(h.Target, "()") != strings.TrimSuffix(target, "()") {
			continue
		}
		ex.hookDepth++
		saved := map[string]*Val{}
		savedNames := map[string]types.Object{}
		bind := func(names []string, vals []*Val) {
			for i, n := range names {
				if n == "_" || i >= len(vals) {
					continue
				}
				if o, ok := st.names[n]; ok {
					savedNames[n] = o
					delete(st.names, n)
				}
				saved[n] = st.bound[n]
				v := vals[i]
				if v != nil && v.Term == nil && v.Const == nil {
					v = &Val{T: v.T, Term: ex.funcRef(st, v), Lit: v.Lit, Fn: v.Fn}
				}
				st.bound[n] = v
			}
		}
		bind(h.Params, args)
		bind(h.Results, results)
		where := fmt.Sprintf("%s:%d on %s %s", h.File, h.Line, kind, target)
		savePos := ex.hookPos
		ex.hookPos = pos
		ex.runGhost(st, h.Body, ex.U, where, h.Props)
		ex.hookPos = savePos
		for n, v := range saved {
			if v == nil {
				delete(st.bound, n)
			} else {
				st.bound[n] = v
			}
		}
		for n, o := range savedNames {
			if _, redefined := st.names[n]; !redefined {
				st.names[n] = o
			}
		}
		ex.hookDepth--
	}
}

// applyContract: assert requires, havoc frame, assume ensures.
func (ex *Exec) applyContract(st *State, fn *types.Func, fs *FuncSpec, u *Unit, args []*Val, pos token.Pos) []*Val {
	sig := fn.Type().(*types.Signature)
	key := calleeKey(fn)
	if len(fs.Params) != len(args) {
		ex.specFail("contract %s binds %d parameters, call has %d", fs.Name, len(fs.Params), len(args))
	}
	// the caller's own scope just before the call (for bind expressions)
	var callerPre *State
	if ex.FSpec != nil && ex.FSpec.Binds != nil {
		callerPre = st.clone()
	}
	// evaluation scope: callee's names only
	cs := st.clone()
	cs.bound = map[string]*Val{}
	cs.ghost = map[string]*Val{}
	saveNL := ex.specNoLocals
	ex.specNoLocals = true
	defer func() { ex.specNoLocals = saveNL }()
	for i, n := range fs.Params {
		a := args[i]
		if a.Term == nil && a.Const == nil {
			a = &Val{T: a.T, Term: ex.funcRef(st, a), Lit: a.Lit, Fn: a.Fn}
			cs.pc = append([]*Term(nil), st.pc...)
		}
		cs.bound[n] = a
	}
	cs.old = cs.clone()
	where := func(c *Clause) string { return fmt.Sprintf("%s:%d %s %s", c.File, c.Line, c.Kind, c.Label) }
	// implicit non-nil preconditions for repo functions under contract
	if u != nil && !fs.Trusted {
		for i, n := range fs.Params {
			a := cs.bound[n]
			if a.Term != nil && a.Term.S == SInt && a.T != nil && isRefLike(a.T) && !fs.Nilable[n] && !(i == 0 && sig.Recv() != nil) {
				ex.oblige(st, "pre", shortKey(key)+".nonnil."+n+"#"+ex.siteOrd(pos, key), pos, not(eq(a.Term, intLit(0))), fs.Props)
			}
		}
	}
	// locks the callee takes while it runs
	for _, l := range fs.Acquires {
		ex.W.Trusted["`acquires`: "+key+" takes (and releases) "+l+" while it runs"] = true
		ex.lockOrderCheck(st, l, pos)
	}
	// locks the callee expects its caller to hold
	for _, h := range fs.Holds {
		_, held := st.held[h]
		ex.obligeAST("pre", shortKey(key)+".holds."+h+"#"+ex.siteOrd(pos, key), pos, held, fmt.Sprintf("%s: %s called without holding %s", ex.posStr(pos), key, h), fs.Props)
	}
	// callee ghost locals without initialiser are chosen by the callee
	ghostNames := map[string]bool{}
	for _, g := range fs.Ghosts {
		ghostNames[g.Name] = true
	}
	for _, c := range fs.Requires {
		if mentionsIdent(c.Expr, ghostNames) {
			continue // about the callee's own ghost state
		}
		if c.Kind == "assumes" {
			continue
		}
		g := ex.evalSpecBool(cs, c.Expr, u, where(c))
		// facts created during evaluation
		ex.adoptFacts(st, cs)
		props := c.Props
		if len(props) == 0 {
			props = nil
		}
		ex.oblige(st, "pre", shortKey(key)+"."+labelOr(c.Label, "requires")+"#"+ex.siteOrd(pos, key), pos, g, props)
		st.assume(g)
		cs.assume(g)
	}
	// frame
	for _, m := range fs.Modifies {
		ex.applyModifies(st, cs, m, u)
	}
	if u != nil && !fs.Pure {
		if fs.AssignsNone {
			// checked on the callee's side (assigns-none obligation)
		} else if frameChecked(fs) {
			// the callee's own postcondition writesOnlySpare(x) states (and its
			// obligations prove) a frame at least as tight as `modifies Mem(x)`
		} else if len(fs.Modifies) == 0 {
			ex.W.Trusted["frame (fields and maps checked by the callee's frame@ obligations; slice elements unchecked): "+key+" changes nothing its callers can see except objects it allocates (its contract has no modifies clause)"] = true
		} else {
			ex.W.Trusted["frame (fields and maps checked by the callee's frame@ obligations; slice elements unchecked): "+key+" changes only what its contract's modifies clause lists ("+strings.Join(fs.Modifies, "; ")+") and objects it allocates"] = true
		}
	}
	if !fs.Pure {
		// the callee may allocate: objects it returns may be new (without this
		// the results were forced to pre-date the call, which contradicts any
		// fresh(...) postcondition and silently kills the caller's paths)
		a := ex.alloc(st)
		n := ex.fresh("alloc", SInt)
		st.assume(ge(n, a))
		st.heaps["$alloc"] = n
	}
	cs.heaps = st.heaps
	post := cs.clone()
	post.heaps = st.heaps
	post.old = cs.old
	// results
	resT := func(i int) types.Type {
		if ex.instSig != nil {
			return ex.instSig.Results().At(i).Type()
		}
		return sig.Results().At(i).Type()
	}
	var results []*Val
	var pureRes []*Val
	if fs.Pure && sig.Results().Len() >= 1 {
		pureRes = ex.pureAppN(st, fn, args)
		if sig.Results().Len() == 1 {
			pureRes = []*Val{ex.pureApp(st, fn, args)}
		}
	}
	for i := 0; i < sig.Results().Len(); i++ {
		name := fmt.Sprintf("ret%d.%s", i, fn.Name())
		var r *Val
		if pureRes != nil {
			r = pureRes[i]
			ex.wf(st, r)
		} else if i < len(fs.Results) && fs.Allocates[fs.Results[i]] && isRefLike(resT(i)) {
			r = &Val{T: resT(i), Term: ex.newRef(st)}
		} else {
			r = ex.freshVal(st, name, resT(i))
		}
		results = append(results, r)
		if i < len(fs.Results) {
			post.bound[fs.Results[i]] = r
		}
	}
	post.pc = append([]*Term(nil), st.pc...)
	// ghost parameters bound by the caller's contract (bind Callee.g = expr)
	boundGhosts := map[string]bool{}
	if ex.FSpec != nil && ex.FSpec.Binds != nil && callerPre != nil {
		var binds map[string]string
		for _, k := range hookKeys(fn) {
			if b, ok := ex.FSpec.Binds[k]; ok {
				binds = b
			}
		}
		if binds != nil {
			for _, g := range fs.Ghosts {
				gt := ex.parseSpecType(g.Type, u)
				if src, ok := binds[g.Name]; ok && g.Init == "" {
					v := ex.evalSpec(callerPre, src, ex.U, "bind "+key+"."+g.Name)
					ex.adoptFacts(st, callerPre)
					v = ex.coerce(st, ex.materialize(v, gt), gt)
					cs.ghost[g.Name] = v
					post.ghost[g.Name] = v
					boundGhosts[g.Name] = true
				} else if g.Init != "" && !mentionsIdent(g.Init, unboundOf(ghostNames, boundGhosts)) {
					// initialised ghost whose initialiser only needs bound ghosts:
					// its entry value, as a formula over the callee's entry state
					// (cs.old is the callee's entry state: heaps before its frame was havocked)
					entry := cs.old
					if entry == nil {
						entry = cs
					}
					if entry.ghost == nil {
						entry.ghost = map[string]*Val{}
					}
					for k2, v2 := range cs.ghost {
						entry.ghost[k2] = v2
					}
					v := ex.evalSpec(entry, g.Init, u, "ghost "+key+"."+g.Name)
					ex.adoptFacts(st, entry)
					v = ex.coerce(st, ex.materialize(v, gt), gt)
					cs.ghost[g.Name] = v
					entry.ghost[g.Name] = v
					post.ghost[g.Name] = v
					boundGhosts[g.Name] = true
				}
			}
		}
	}
	for _, c := range fs.Ensures {
		if mentionsIdent(c.Expr, unboundOf(ghostNames, boundGhosts)) {
			continue
		}
		g := ex.evalSpecBool(post, c.Expr, u, where(c))
		ex.adoptFacts(st, post)
		st.assume(g)
		post.assume(g)
	}
	for k, t := range post.heaps {
		if _, ok := st.heaps[k]; !ok {
			st.heaps[k] = t
		}
	}
	if fs.Trusted {
		ex.W.Trusted["trusted contract: "+key] = true
	}
	return results
}

func unboundOf(all, bound map[string]bool) map[string]bool {
	out := map[string]bool{}
	for k := range all {
		if !bound[k] {
			out[k] = true
		}
	}
	return out
}

func labelOr(l, d string) string {
	if l == "" {
		return d
	}
	return l
}

func shortKey(k string) string { return k }

// siteOrd numbers call sites of the same callee inside the function being
// verified, in source order, so obligation names do not depend on line numbers.
func (ex *Exec) siteOrd(pos token.Pos, key string) string {
	k := key
	m := ex.siteOrds[k]
	if m == nil {
		m = map[token.Pos]int{}
		ex.siteOrds[k] = m
	}
	if n, ok := m[pos]; ok {
		return fmt.Sprint(n)
	}
	// ordinal = number of distinct earlier positions + 1 (positions are
	// visited in path order; use the rank among all call sites found by a
	// pre-pass if available)
	if ex.callSites != nil {
		if r, ok := ex.callSites[key][pos]; ok {
			m[pos] = r
			return fmt.Sprint(r)
		}
	}
	n := len(m) + 1
	m[pos] = n
	return fmt.Sprint(n)
}

// adoptFacts copies facts added to a scratch state (beyond st's pc) into st.
func (ex *Exec) adoptFacts(st, scratch *State) {
	if len(scratch.pc) > len(st.pc) {
		extra := append([]*Term(nil), scratch.pc[len(st.pc):]...)
		for _, f := range extra {
			st.assume(f)
		}
	}
	// scratch pc may have diverged in length only by appends; resync
	scratch.pc = append([]*Term(nil), st.pc...)
	for k, t := range scratch.heaps {
		if _, ok := st.heaps[k]; !ok {
			st.heaps[k] = t
		}
	}
}

// applyModifies havocs what a modifies clause names.
func (ex *Exec) applyModifies(st, cs *State, m string, u *Unit) {
	m = strings.TrimSpace(m)
	switch {
	case strings.HasPrefix(m, "Mem(") && strings.HasSuffix(m, ")"):
		v := ex.evalSpec(cs, m[4:len(m)-1], u, "modifies")
		ex.adoptFacts(st, cs)
		ex.havocSliceMem(st, v)
	case strings.HasPrefix(m, "heap(") && strings.HasSuffix(m, ")"):
		name := m[5 : len(m)-1]
		for k := range st.heaps {
			if strings.HasSuffix(k, "$"+name) || k == name {
				ex.havocHeap(st, k)
			}
		}
	default:
		// a field path expression x.f : havoc that field at x
		e, err := parseSpecExpr(m)
		if err != nil {
			ex.specFail("bad modifies %q", m)
		}
		if sel, ok := e.(*ast.SelectorExpr); ok {
			ex.specDepth++
			x := ex.expr(cs, sel.X)
			ex.specDepth--
			base, isPtr := derefType(x.T)
			if isPtr {
				ft := ex.fieldTypeByName(base, sel.Sel.Name)
				if ft != nil {
					nv := ex.freshVal(st, "mod."+sel.Sel.Name, ft)
					ex.writeField(st, x.Term, base, sel.Sel.Name, ft, nv.Term)
					return
				}
			}
		}
		ex.specFail("unsupported modifies %q", m)
	}
}

func (ex *Exec) fieldTypeByName(base types.Type, name string) types.Type {
	if ts := ex.typeSpecFor(base); ts != nil {
		for _, g := range ts.Ghosts {
			if g.Name == name {
				return ex.parseSpecType(g.Type, ex.unitOfType(base))
			}
		}
	}
	if s, ok := base.Underlying().(*types.Struct); ok {
		if f, _ := findField(s, name); f != nil {
			return f.Type()
		}
	}
	return nil
}

// ---------------------------------------------------------------------
// closures

func (ex *Exec) inlineClosure(st *State, fn *Val, args []*Val, pos token.Pos) []*Val {
	lit := fn.Lit
	lex := fn.LitEx
	if lex == nil {
		lex = ex
	}
	sig := ex.typeOf(lit).(*types.Signature)
	if ex.inlineDepth > 8 {
		ex.unsupported(pos, "closure inlining too deep")
		var rs []*Val
		for i := 0; i < sig.Results().Len(); i++ {
			rs = append(rs, ex.freshVal(st, "ret", sig.Results().At(i).Type()))
		}
		return rs
	}
	ex.inlineDepth++
	defer func() { ex.inlineDepth-- }()
	fr := &Frame{sig: sig}
	st.frames = append(st.frames, fr)
	prefix := len(st.pc)
	saveInfo := ex.Info
	ex.Info = lex.Info
	ex.bindParams(st, lit.Type, args)
	flows := ex.block(st, lit.Body.List)
	var outs []flowOut
	for _, f := range flows {
		switch f.kind {
		case flowNormal, flowReturn:
			ex.runDefers(f.st)
			if f.st.dead {
				continue
			}
			f.st.frames = f.st.frames[:len(f.st.frames)-1]
			outs = append(outs, flowOut{st: f.st, rets: f.rets})
		case flowDead:
		default:
			ex.unsupported(pos, "break/continue out of closure")
		}
	}
	ex.Info = saveInfo
	if len(outs) == 0 {
		st.assume(tFalse)
		st.dead = true
		return ex.zeroResults(st, sig)
	}
	m, rets := ex.mergeStates(prefix, outs, sig.Results().Len())
	*st = *m
	if len(rets) == 0 && sig.Results().Len() > 0 {
		rets = ex.zeroResults(st, sig)
	}
	return rets
}

// inlineDecl executes the body of a contract-less function of the package
// under verification in place of the call.  Only straight-line helpers (no
// loops, go, defer, select, labels) that are not already being inlined.
func (ex *Exec) inlineDecl(st *State, fn *types.Func, u *Unit, args []*Val, pos token.Pos) ([]*Val, bool) {
	if u == nil || ex.U == nil || u != ex.U || os.Getenv("GOVC_NOINLINE") != "" {
		return nil, false
	}
	key := calleeKey(fn)
	short := key[strings.Index(key, ".")+1:]
	fd := u.Funcs[short]
	if fd == nil || fd.Body == nil || len(fd.Body.List) > 40 || fd.Type.TypeParams != nil {
		return nil, false
	}
	if ex.inlining == nil {
		ex.inlining = map[string]bool{}
	}
	if ex.inlining[short] || ex.inlineDepth > 4 || short == ex.FNameShort() {
		return nil, false
	}
	simple := true
	ast.Inspect(fd.Body, func(x ast.Node) bool {
		switch x.(type) {
		case *ast.ForStmt, *ast.RangeStmt, *ast.GoStmt, *ast.DeferStmt, *ast.SelectStmt, *ast.LabeledStmt, *ast.FuncLit, *ast.TypeSwitchStmt:
			simple = false
		}
		return simple
	})
	if !simple {
		return nil, false
	}
	sig := fn.Type().(*types.Signature)
	ex.inlinedBodies = append(ex.inlinedBodies, fd.Body)
	ex.inlining[short] = true
	ex.inlineDepth++
	// the helper's own safety (nil, bounds) is not the caller's obligation: it
	// would be the helper's, had it a contract; facts are assumed as usual
	saveSafety := ex.safety
	ex.safety = false
	defer func() { ex.inlineDepth--; delete(ex.inlining, short); ex.safety = saveSafety }()
	savedNames := map[string]types.Object{}
	for k, v := range st.names {
		savedNames[k] = v
	}
	fr := &Frame{sig: sig}
	st.frames = append(st.frames, fr)
	prefix := len(st.pc)
	saveInfo := ex.Info
	ex.Info = u.Pkg.TypesInfo
	// receiver, then parameters
	rest := args
	if fd.Recv != nil && len(fd.Recv.List) == 1 && len(args) > 0 {
		if len(fd.Recv.List[0].Names) == 1 {
			if o := ex.Info.Defs[fd.Recv.List[0].Names[0]]; o != nil {
				st.vars[o] = ex.coerce(st, args[0], o.Type())
				st.names[fd.Recv.List[0].Names[0].Name] = o
			}
		}
		rest = args[1:]
	}
	ex.bindParams(st, fd.Type, rest)
	if fd.Type.Results != nil {
		for _, f := range fd.Type.Results.List {
			for _, n := range f.Names {
				if o := ex.Info.Defs[n]; o != nil {
					st.vars[o] = ex.zero(o.Type())
					st.names[n.Name] = o
					fr.results = append(fr.results, o)
				}
			}
		}
	}
	flows := ex.block(st, fd.Body.List)
	var outs []flowOut
	for _, f := range flows {
		switch f.kind {
		case flowNormal, flowReturn:
			if f.st.dead {
				continue
			}
			rets := f.rets
			if f.kind == flowNormal && len(fr.results) > 0 {
				for _, o := range fr.results {
					rets = append(rets, f.st.vars[o])
				}
			}
			f.st.frames = f.st.frames[:len(f.st.frames)-1]
			outs = append(outs, flowOut{st: f.st, rets: rets})
		}
	}
	ex.Info = saveInfo
	if len(outs) == 0 {
		st.assume(tFalse)
		st.dead = true
		st.names = savedNames
		return ex.zeroResults(st, sig), true
	}
	m, rets := ex.mergeStates(prefix, outs, sig.Results().Len())
	*st = *m
	st.names = savedNames
	if len(rets) == 0 && sig.Results().Len() > 0 {
		rets = ex.zeroResults(st, sig)
	}
	return rets, true
}

// FNameShort is the name of the function under verification without its package.
func (ex *Exec) FNameShort() string {
	if i := strings.Index(ex.FName, "."); i >= 0 {
		return ex.FName[i+1:]
	}
	return ex.FName
}

type flowOut struct {
	st   *State
	rets []*Val
}

func (ex *Exec) zeroResults(st *State, sig *types.Signature) []*Val {
	var rs []*Val
	for i := 0; i < sig.Results().Len(); i++ {
		rs = append(rs, ex.zero(sig.Results().At(i).Type()))
	}
	return rs
}

// bindParams binds a function literal's or declaration's parameters.
func (ex *Exec) bindParams(st *State, ft *ast.FuncType, args []*Val) {
	i := 0
	if ft.Params != nil {
		for _, fld := range ft.Params.List {
			if len(fld.Names) == 0 {
				i++
				continue
			}
			for _, n := range fld.Names {
				if i < len(args) {
					if o := ex.Info.Defs[n]; o != nil {
						v := ex.coerce(st, args[i], o.Type())
						st.vars[o] = v
						st.names[n.Name] = o
					}
				}
				i++
			}
		}
	}
	fr := st.frame()
	if ft.Results != nil {
		for _, fld := range ft.Results.List {
			for _, n := range fld.Names {
				if o := ex.Info.Defs[n]; o != nil {
					st.vars[o] = ex.zero(o.Type())
					st.names[n.Name] = o
					fr.results = append(fr.results, o)
				}
			}
		}
	}
}

// ---------------------------------------------------------------------
// channel operations

func (ex *Exec) recv(st *State, chExpr ast.Expr, pos token.Pos) []*Val {
	ch := ex.expr(st, chExpr)
	var et types.Type = tAny
	if c, ok := ch.T.Underlying().(*types.Chan); ok {
		et = c.Elem()
	}
	v := ex.freshVal(st, "recv", et)
	ok := &Val{T: tBool, Term: ex.fresh("recvok", SBool)}
	// a closed channel yields the zero value
	z := ex.zero(et)
	if z.Term != nil && v.Term != nil {
		if _, isStruct := et.Underlying().(*types.Struct); !isStruct {
			st.assume(implies(not(ok.Term), eq(v.Term, z.Term)))
		}
	}
	if call, isCall := ast.Unparen(chExpr).(*ast.CallExpr); isCall {
		if fn := ex.calleeOf(call); fn != nil && calleeKey(fn) == "context.Context.Done" {
			if sel, ok := ast.Unparen(call.Fun).(*ast.SelectorExpr); ok {
				c := ex.expr(st, sel.X)
				ex.setCtxDone(st, c.Term, tTrue)
			}
		}
	}
	ex.runHooks(st, "recv", exprText(chExpr), []*Val{v, ok}, nil, pos)
	return []*Val{v, ok}
}

func (ex *Exec) send(st *State, chExpr ast.Expr, val ast.Expr, pos token.Pos) {
	ch := ex.expr(st, chExpr)
	v := ex.expr(st, val)
	if c, ok := ch.T.Underlying().(*types.Chan); ok {
		v = ex.coerce(st, v, c.Elem())
	}
	ex.noblockCheck(st, chExpr, pos)
	ex.runHooks(st, "send", exprText(chExpr), []*Val{v}, nil, pos)
}

// noblockCheck: a send on a channel created locally (make) must not be able
// to block forever once its consumer has left: either it is a select arm next
// to a <-ctx.Done() arm (or default), or the number of sends ever made is
// bounded by the channel's constant capacity.
func (ex *Exec) noblockCheck(st *State, chExpr ast.Expr, pos token.Pos) {
	id, ok := ast.Unparen(chExpr).(*ast.Ident)
	if !ok {
		ex.W.Trusted["channel "+exprText(chExpr)+" has a process-lifetime consumer (sends assumed not to block forever)"] = true
		return
	}
	obj := ex.Info.ObjectOf(id)
	if obj == nil {
		return
	}
	capacity, fd := ex.U.localChanCap(ex, obj)
	if fd == nil {
		return // not created by make in this package: parameter or field
	}
	if ex.selHasDone != nil && *ex.selHasDone {
		ex.obligeAST("noblock", id.Name+"<-", pos, true, "", nil)
		return
	}
	// capacity argument: count static sends outside loops
	sends, inLoop := 0, false
	var walk func(n ast.Node, loop bool)
	walk = func(n ast.Node, loop bool) {
		ast.Inspect(n, func(x ast.Node) bool {
			if x == nil || x == n {
				return true
			}
			switch y := x.(type) {
			case *ast.ForStmt:
				walk(y, true)
				return false
			case *ast.RangeStmt:
				walk(y, true)
				return false
			case *ast.SendStmt:
				if cid, ok := ast.Unparen(y.Chan).(*ast.Ident); ok && ex.Info.ObjectOf(cid) == obj {
					sends++
					if loop {
						inLoop = true
					}
				}
			}
			return true
		})
	}
	walk(fd.Body, false)
	okCap := !inLoop && capacity >= 0 && int64(sends) <= capacity
	ex.obligeAST("noblock", id.Name+"<-", pos, okCap,
		fmt.Sprintf("%s: send on locally created channel %s (capacity %d, %d static sends, in loop: %v) is neither a select arm beside <-ctx.Done()/default nor bounded by the capacity: the sender can block forever after the receiver has left", ex.posStr(pos), id.Name, capacity, sends, inLoop), nil)
}

// localChanCap finds `x := make(chan T, N)` defining obj; returns N (0 if absent, -1 if not constant).
func (u *Unit) localChanCap(ex *Exec, obj types.Object) (int64, *ast.FuncDecl) {
	for _, f := range u.Pkg.Syntax {
		for _, d := range f.Decls {
			fd, ok := d.(*ast.FuncDecl)
			if !ok || fd.Body == nil || obj.Pos() < fd.Pos() || obj.Pos() > fd.End() {
				continue
			}
			var res int64 = -2
			ast.Inspect(fd.Body, func(x ast.Node) bool {
				as, ok := x.(*ast.AssignStmt)
				if !ok {
					if vs, ok := x.(*ast.ValueSpec); ok {
						for i, n := range vs.Names {
							if u.Pkg.TypesInfo.Defs[n] == obj && i < len(vs.Values) {
								res = makeChanCap(u, vs.Values[i])
							}
						}
					}
					return true
				}
				for i, l := range as.Lhs {
					if id, ok := l.(*ast.Ident); ok && u.Pkg.TypesInfo.Defs[id] == obj && i < len(as.Rhs) {
						res = makeChanCap(u, as.Rhs[i])
					}
				}
				return true
			})
			if res != -2 {
				return res, fd
			}
		}
	}
	return 0, nil
}

func makeChanCap(u *Unit, e ast.Expr) int64 {
	call, ok := ast.Unparen(e).(*ast.CallExpr)
	if !ok {
		return -2
	}
	id, ok := call.Fun.(*ast.Ident)
	if !ok || id.Name != "make" {
		return -2
	}
	if _, ok := u.Pkg.TypesInfo.TypeOf(call.Args[0]).Underlying().(*types.Chan); !ok {
		return -2
	}
	if len(call.Args) < 2 {
		return 0
	}
	if tv, ok := u.Pkg.TypesInfo.Types[call.Args[1]]; ok && tv.Value != nil {
		if n, ok := constantInt64(tv); ok {
			return n
		}
	}
	return -1
}

// mentionsIdent reports whether src mentions one of the names as an identifier.
func mentionsIdent(src string, names map[string]bool) bool {
	if len(names) == 0 {
		return false
	}
	e, err := parseSpecExpr(src)
	if err != nil {
		return false
	}
	found := false
	ast.Inspect(e, func(n ast.Node) bool {
		if id, ok := n.(*ast.Ident); ok && names[id.Name] {
			found = true
		}
		return !found
	})
	return found
}

func constantInt64(tv types.TypeAndValue) (int64, bool) {
	return constant.Int64Val(constant.ToInt(tv.Value))
}

// groupKey names the errgroup a Go/Wait call is made on.
func groupKey(e *ast.CallExpr) string {
	if e == nil {
		return "?"
	}
	if sel, ok := ast.Unparen(e.Fun).(*ast.SelectorExpr); ok {
		return exprText(sel.X)
	}
	return "?"
}

// spawnInGroup verifies a goroutine body on a copy of the state: what the
// parent knows at the spawn point is known to the child, but nothing the child
// establishes (ghost state) is known to the parent or to sibling goroutines
// until the group's Wait returns.
func (ex *Exec) spawnInGroup(st *State, e *ast.CallExpr, lit *Val, pos token.Pos) {
	key := groupKey(e)
	child := st.clone()
	child.frames = append([]*Frame(nil), st.frames...)
	prefix := len(st.pc)
	ex.runHooks(child, "go", "func", nil, nil, pos)
	ex.inlineClosure(child, lit, nil, pos)
	delta := &groupDelta{ghost: map[string]*Val{}, base: map[string]*Val{}}
	for k, v := range child.ghost {
		if pv, ok := st.ghost[k]; !ok || pv.Term != v.Term {
			delta.ghost[k] = v
			delta.base[k] = pv
		}
	}
	if len(child.pc) > prefix && !child.dead {
		delta.facts = append(delta.facts, child.pc[prefix:]...)
	}
	if st.groups == nil {
		st.groups = map[string][]*groupDelta{}
	}
	st.groups[key] = append(append([]*groupDelta(nil), st.groups[key]...), delta)
	ex.W.Trusted["errgroup.Group: Go starts the function in a new goroutine; Wait returns only after every such function has returned (happens-before edge); goroutine bodies are verified against the spawn-time state and their ghost effects become visible at Wait"] = true
}

func (ex *Exec) joinGroup(st *State, e *ast.CallExpr) {
	key := groupKey(e)
	for _, d := range st.groups[key] {
		for _, f := range d.facts {
			st.assume(f)
		}
		// ghost effects of a goroutine are merged as monotone flags (bool:
		// or) and counters (int: sum of increments); anything else is last-writer
		for k, v := range d.ghost {
			cur, base := st.ghost[k], d.base[k]
			switch {
			case cur != nil && v.Term.S == SBool:
				st.ghost[k] = &Val{T: v.T, Term: or(cur.Term, v.Term)}
			case cur != nil && base != nil && v.Term.S == SInt && !isRefLike(v.T):
				st.ghost[k] = &Val{T: v.T, Term: add(cur.Term, sub(v.Term, base.Term))}
			default:
				st.ghost[k] = v
			}
		}
	}
}

type groupDelta struct {
	base  map[string]*Val
	ghost map[string]*Val
	facts []*Term
}

// frameChecked: the contract's only modifies clause is Mem(x) and one of its
// postconditions is exactly writesOnlySpare(x), so the frame the callers rely
// on is an obligation of the callee rather than an assumption.
func frameChecked(fs *FuncSpec) bool {
	if len(fs.Modifies) != 1 {
		return false
	}
	m := strings.TrimSpace(fs.Modifies[0])
	if !strings.HasPrefix(m, "Mem(") || !strings.HasSuffix(m, ")") {
		return false
	}
	want := "writesOnlySpare(" + strings.TrimSpace(m[4:len(m)-1]) + ")"
	for _, c := range fs.Ensures {
		if strings.TrimSpace(c.Expr) == want {
			return true
		}
	}
	return false
}
