package main

// roglobals.go - package-level map variables initialised by a composite
// literal and never written: every use of the variable in its (unexported:
// only its own) package is a read (m[k] as a value, range, len, or an argument
// of maps.Clone / maps.Keys / maps.Values).  For those the literal's entries
// are facts at every read of the variable: the map is non-nil, holds exactly
// the literal's (constant) keys, and function-valued entries are non-nil.
// Decided syntactically on every run; an exported variable or any other kind
// of use makes the variable an ordinary unknown global again.

import (
	"go/ast"
	"go/constant"
	"go/token"
	"go/types"
)

type roMap struct {
	lit  *ast.CompositeLit
	keys []constant.Value
	fnv  []bool // value is a declared function (non-nil)
}

func (w *World) readOnlyMapLiteral(o types.Object) *roMap {
	if w.roMaps == nil {
		w.roMaps = map[types.Object]*roMap{}
	}
	if r, ok := w.roMaps[o]; ok {
		return r
	}
	w.roMaps[o] = nil
	v, ok := o.(*types.Var)
	if !ok || v.Pkg() == nil || v.Exported() || v.Parent() != v.Pkg().Scope() {
		return nil
	}
	if _, isMap := v.Type().Underlying().(*types.Map); !isMap {
		return nil
	}
	u := w.Units[v.Pkg().Path()]
	if u == nil {
		return nil
	}
	info := u.Pkg.TypesInfo
	var lit *ast.CompositeLit
	good := true
	for _, f := range u.Pkg.Syntax {
		var stack []ast.Node
		ast.Inspect(f, func(n ast.Node) bool {
			if n == nil {
				stack = stack[:len(stack)-1]
				return true
			}
			stack = append(stack, n)
			id, ok := n.(*ast.Ident)
			if !ok {
				return true
			}
			if info.Defs[id] == o {
				// the declaration: var x = map[..]..{...}
				if len(stack) >= 2 {
					if vs, ok := stack[len(stack)-2].(*ast.ValueSpec); ok {
						for i, nm := range vs.Names {
							if nm == id && i < len(vs.Values) {
								if cl, ok := ast.Unparen(vs.Values[i]).(*ast.CompositeLit); ok {
									lit = cl
								}
							}
						}
					}
				}
				return true
			}
			if info.Uses[id] != o {
				return true
			}
			if len(stack) < 2 {
				good = false
				return true
			}
			switch p := stack[len(stack)-2].(type) {
			case *ast.IndexExpr:
				if p.X != id {
					break // used as an index of something else: a read
				}
				// m[k]: must not be assigned to, incremented or have its address taken
				if len(stack) >= 3 {
					switch gp := stack[len(stack)-3].(type) {
					case *ast.AssignStmt:
						for _, l := range gp.Lhs {
							if l == p {
								good = false
							}
						}
					case *ast.IncDecStmt:
						good = false
					case *ast.UnaryExpr:
						if gp.Op == token.AND {
							good = false
						}
					}
				}
			case *ast.RangeStmt:
				if p.X != id {
					good = false
				}
			case *ast.CallExpr:
				ok := false
				switch fn := ast.Unparen(p.Fun).(type) {
				case *ast.Ident:
					ok = fn.Name == "len" && info.Uses[fn] == types.Universe.Lookup("len")
				case *ast.SelectorExpr:
					if pk, isPkg := info.Uses[identOf(fn.X)].(*types.PkgName); isPkg {
						path := pk.Imported().Path()
						if (path == "maps" || path == "golang.org/x/exp/maps") && (fn.Sel.Name == "Clone" || fn.Sel.Name == "Keys" || fn.Sel.Name == "Values") {
							ok = true
						}
					}
				}
				if !ok {
					good = false
				}
			default:
				good = false
			}
			return true
		})
	}
	if lit == nil || !good {
		return nil
	}
	r := &roMap{lit: lit}
	for _, el := range lit.Elts {
		kv, ok := el.(*ast.KeyValueExpr)
		if !ok {
			return nil
		}
		tv, ok := info.Types[kv.Key]
		if !ok || tv.Value == nil {
			return nil
		}
		r.keys = append(r.keys, tv.Value)
		isFn := false
		if vid := identOf(kv.Value); vid != nil {
			_, isFn = info.Uses[vid].(*types.Func)
		}
		r.fnv = append(r.fnv, isFn)
	}
	w.roMaps[o] = r
	w.Trusted["read-only package-level map "+v.Pkg().Name()+"."+v.Name()+": its literal entries are used as facts (checked on every run: unexported, initialised by a literal, every use in the package is a read)"] = true
	return r
}

func identOf(e ast.Expr) *ast.Ident {
	id, _ := ast.Unparen(e).(*ast.Ident)
	return id
}

// roMapFacts assumes the literal's entries for a read-only map global.
func (ex *Exec) roMapFacts(st *State, o types.Object, ref *Term) {
	r := ex.W.readOnlyMapLiteral(o)
	if r == nil {
		return
	}
	mt := o.Type().Underlying().(*types.Map)
	st.assume(gt(ref, intLit(0)))
	ks := ex.sortOf(mt.Key())
	k := mk("k?", ks)
	_, _, vh, hh := ex.mapHeaps(st, mt)
	var any []*Term
	for i, c := range r.keys {
		kt := ex.constVal(c, mt.Key())
		kt = ex.coerce(st, ex.materialize(kt, mt.Key()), mt.Key())
		if kt.Term == nil {
			return
		}
		any = append(any, eq(k, kt.Term))
		st.assume(sel(sel(hh, ref), kt.Term))
		if r.fnv[i] {
			st.assume(gt(sel(sel(vh, ref), kt.Term), intLit(0)))
		}
	}
	// no other key is present
	st.assume(forall([]*Term{k}, implies(sel(sel(hh, ref), k), or(any...)), []*Term{sel(sel(hh, ref), k)}))
}
