package main

// libmodels.go - Go-coded contracts of library functions (trusted base),
// lock handling, state merging.

import (
	"fmt"
	"go/ast"
	"go/token"
	"go/types"
	"sort"
	"strings"
)

type libModel func(ex *Exec, st *State, fn *types.Func, args []*Val, e *ast.CallExpr) ([]*Val, bool)

var libModels map[string]libModel

func init() {
	libModels = map[string]libModel{
		"bytes.Split":       modelBytesSplit,
		"slices.Contains":   modelSlicesContains,
		"bytes.Clone":       modelBytesClone,
		"sync.Mutex.Lock":   modelLock,
		"sync.Mutex.Unlock": modelUnlock,
		"sync.RWMutex.Lock": modelLock, "sync.RWMutex.Unlock": modelUnlock,
		"sync.RWMutex.RLock": modelLock, "sync.RWMutex.RUnlock": modelUnlock,
		"fmt.Errorf": modelErrorf,
		"errors.New": modelErrorsNew,
		"errors.Is":  modelErrorsIs,
		"subtle.ConstantTimeCompare": modelCTCompare,
		"context.Context.Err":        modelCtxErr,
		"context.Cause":              modelCtxCause,
		"fmt.Sprintf":                modelSprintf,
		"log.Fatalf": modelExit, "log.Fatal": modelExit, "log.Fatalln": modelExit, "os.Exit": modelExit,
		"log.Panicf": modelExit, "log.Panic": modelExit,
	}
}

func trusted(ex *Exec, s string) { ex.W.Trusted[s] = true }

func modelBytesSplit(ex *Exec, st *State, fn *types.Func, args []*Val, e *ast.CallExpr) ([]*Val, bool) {
	s, sep := args[0].Term, args[1].Term
	trusted(ex, "library contract: bytes.Split(s,sep) with len(sep)==1 returns n>=1 subslices of s, in order (piece 0 starts at 0, piece k+1 starts one past the end of piece k where s holds sep, the last piece ends at len(s)), none containing sep, covering s")
	rt := fn.Type().(*types.Signature).Results().At(0).Type()
	ref := ex.newRef(st)
	n := ex.fresh("split.n", SInt)
	st.assume(ge(n, intLit(1)))
	R := ex.mkSlice(st, ref, intLit(0), n, n)
	ex.nfresh++
	offN, lenN := fmt.Sprintf("split.off!%d", ex.nfresh), fmt.Sprintf("split.len!%d", ex.nfresh)
	ex.D.declare(offN, []string{SInt}, SInt)
	ex.D.declare(lenN, []string{SInt}, SInt)
	o := func(k *Term) *Term { return mk(offN, SInt, k) }
	l := func(k *Term) *Term { return mk(lenN, SInt, k) }
	k := mk("k?", SInt)
	elT := types.Type(tBytes)
	el := ex.sliceElem(st, R, k, elT)
	inRange := and(ge(k, intLit(0)), lt(k, n))
	st.assume(forall([]*Term{k}, implies(inRange, and(
		eq(ex.sRef(el), ex.sRef(s)),
		eq(ex.sOff(el), add(ex.sOff(s), o(k))),
		eq(ex.sLen(el), l(k)),
		ge(ex.sCap(el), l(k)),
		le(add(ex.sOff(el), ex.sCap(el)), add(ex.sOff(s), ex.sCap(s))),
		ge(o(k), intLit(0)), ge(l(k), intLit(0)),
		le(add(o(k), l(k)), ex.sLen(s)),
	)), []*Term{el}, []*Term{o(k)}, []*Term{l(k)}))
	// structure (only meaningful for one-byte separators)
	sepIs1 := eq(ex.sLen(sep), intLit(1))
	sepByte := ex.sliceElem(st, sep, intLit(0), tByte)
	srcAt := func(i *Term) *Term { return ex.sliceElem(st, s, i, tByte) }
	st.assume(implies(sepIs1, eq(o(intLit(0)), intLit(0))))
	st.assume(implies(sepIs1, eq(add(o(sub(n, intLit(1))), l(sub(n, intLit(1)))), ex.sLen(s))))
	st.assume(implies(sepIs1, forall([]*Term{k}, implies(and(ge(k, intLit(0)), lt(add(k, intLit(1)), n)), and(
		eq(o(add(k, intLit(1))), add(add(o(k), l(k)), intLit(1))),
		eq(srcAt(add(o(k), l(k))), sepByte),
	)), []*Term{o(add(k, intLit(1)))})))
	j := mk("j?", SInt)
	st.assume(implies(sepIs1, forall([]*Term{k, j}, implies(and(inRange, ge(j, intLit(0)), lt(j, l(k))),
		not(eq(srcAt(add(o(k), j)), sepByte))), []*Term{srcAt(add(o(k), j))})))
	// the same fact by absolute position in the array, so that a read through
	// any slice of the same array (and the piece's length) instantiates it
	a := mk("a?", SInt)
	row := sel(ex.mem(st, tByte), ex.sRef(s))
	st.assume(implies(sepIs1, forall([]*Term{k, a}, implies(and(inRange,
		ge(a, add(ex.sOff(s), o(k))), lt(a, add(add(ex.sOff(s), o(k)), l(k)))),
		not(eq(sel(row, a), sepByte))), []*Term{l(k), sel(row, a)})))
	ex.splitInfo[R.Op] = &splitInfo{off: offN, ln: lenN, n: n, src: s}
	return []*Val{{T: rt, Term: R}}, true
}

type splitInfo struct {
	off, ln string
	n       *Term
	src     *Term
}

func modelSlicesContains(ex *Exec, st *State, fn *types.Func, args []*Val, e *ast.CallExpr) ([]*Val, bool) {
	s := args[0]
	sl, ok := s.T.Underlying().(*types.Slice)
	if !ok {
		return nil, false
	}
	v := ex.coerce(st, args[1], sl.Elem())
	trusted(ex, "library contract: slices.Contains(s,v) == exists i. s[i]==v")
	b := ex.fresh("contains", SBool)
	k := mk("k?", SInt)
	at := ex.sliceElem(st, s.Term, k, sl.Elem())
	st.assume(implies(not(b), forall([]*Term{k}, implies(and(ge(k, intLit(0)), lt(k, ex.sLen(s.Term))), not(eq(at, v.Term))), []*Term{at})))
	w := ex.fresh("contains.at", SInt)
	st.assume(implies(b, and(ge(w, intLit(0)), lt(w, ex.sLen(s.Term)), eq(ex.sliceElem(st, s.Term, w, sl.Elem()), v.Term))))
	return []*Val{{T: tBool, Term: b}}, true
}

func modelBytesClone(ex *Exec, st *State, fn *types.Func, args []*Val, e *ast.CallExpr) ([]*Val, bool) {
	s := args[0].Term
	trusted(ex, "library contract: bytes.Clone(b) returns a fresh copy (nil for nil) with the same length and contents")
	ref := ex.newRef(st)
	cp := ex.fresh("clonecap", SInt)
	st.assume(ge(cp, ex.sLen(s)))
	isNil := eq(ex.sRef(s), intLit(0))
	r := ex.fresh("clone", SSlice)
	st.assume(eq(ex.sRef(r), ite(isNil, intLit(0), ref)))
	st.assume(eq(ex.sOff(r), intLit(0)))
	st.assume(eq(ex.sLen(r), ex.sLen(s)))
	st.assume(eq(ex.sCap(r), ite(isNil, intLit(0), cp)))
	arr := ex.fresh("clonearr", arrSort(SInt, SByte))
	k := mk("k?", SInt)
	m := ex.mem(st, tByte)
	st.assume(forall([]*Term{k}, implies(and(ge(k, intLit(0)), lt(k, ex.sLen(s))), eq(sel(arr, k), sel(sel(m, ex.sRef(s)), ex.ix(ex.sOff(s), k)))), []*Term{sel(arr, k)}))
	name, _ := ex.memName(tByte)
	st.heaps[name] = ite(isNil, m, store(m, ref, arr))
	return []*Val{{T: args[0].T, Term: r}}, true
}

func modelCTCompare(ex *Exec, st *State, fn *types.Func, args []*Val, e *ast.CallExpr) ([]*Val, bool) {
	trusted(ex, "library contract: subtle.ConstantTimeCompare(x,y)==1 iff x and y have equal length and equal contents, else 0")
	x, y := args[0].Term, args[1].Term
	m := ex.mem(st, tByte)
	sx := ex.strOf(sel(m, ex.sRef(x)), ex.sOff(x), ex.sLen(x))
	sy := ex.strOf(sel(m, ex.sRef(y)), ex.sOff(y), ex.sLen(y))
	return []*Val{{T: tInt, Term: ite(eq(sx, sy), intLit(1), intLit(0))}}, true
}

// process exit: the path ends here (deferred calls do not run).
func modelExit(ex *Exec, st *State, fn *types.Func, args []*Val, e *ast.CallExpr) ([]*Val, bool) {
	trusted(ex, "library contract: "+calleeKey(fn)+" does not return (process exit; deferred functions are not run)")
	ex.exitAfterHooks = true
	return nil, true
}

// ---- fmt.Sprintf: for a constant format made only of literal text and plain
// %s verbs whose operands are strings, the result is the concatenation; in
// every other case it is an uninterpreted function of (format, operands).

func (ex *Exec) litOf(t *Term) (string, bool) {
	if t.Op == "st.empty" {
		return "", true
	}
	for k, v := range ex.strLits {
		if v == t {
			return k, true
		}
	}
	return "", false
}

func (ex *Exec) sprintfModel(st *State, format *Term, args *Term) *Term {
	if f, ok := ex.litOf(format); ok {
		if !strings.Contains(f, "%") {
			return format
		}
		els, known := ex.variadicElems[args.Op]
		if args.Op == "s.nil" {
			known = true
		}
		if known {
			pieces := strings.Split(f, "%s")
			simple := len(pieces)-1 == len(els)
			for _, p := range pieces {
				if strings.Contains(p, "%") {
					simple = false
				}
			}
			for _, e := range els {
				if e == nil || e.T == nil || !isString(e.T) {
					simple = false
				}
			}
			if simple {
				res := ex.strLit(pieces[0])
				for i, e := range els {
					v := ex.materialize(e, tString)
					res = ex.strCat(res, v.Term)
					res = ex.strCat(res, ex.strLit(pieces[i+1]))
				}
				return res
			}
		}
	}
	return ex.D.app("fmt.Sprintf$", SStr, format, args)
}

func modelSprintf(ex *Exec, st *State, fn *types.Func, args []*Val, e *ast.CallExpr) ([]*Val, bool) {
	trusted(ex, "library contract: fmt.Sprintf with a constant format of literal text and plain %s verbs over string operands is their concatenation; otherwise an uninterpreted function of format and operands")
	return []*Val{{T: tString, Term: ex.sprintfModel(st, args[0].Term, args[1].Term)}}, true
}

// ---- contexts: "done" is ghost state that may flip to true at any time
// and never flips back.

func (ex *Exec) ctxDone(st *State, c *Term) *Term {
	return sel(ex.heap(st, "CtxDone", arrSort(SInt, SBool)), c)
}

func (ex *Exec) setCtxDone(st *State, c *Term, v *Term) {
	h := ex.heap(st, "CtxDone", arrSort(SInt, SBool))
	st.heaps["CtxDone"] = store(h, c, v)
}

func modelCtxErr(ex *Exec, st *State, fn *types.Func, args []*Val, e *ast.CallExpr) ([]*Val, bool) {
	trusted(ex, "library contract: a context's done-ness is monotone; Err()!=nil iff done at that moment; receiving from Done() implies done; Cause()!=nil once done")
	c := args[0].Term
	r := ex.freshVal(st, "ctxerr", tErr)
	st.assume(implies(ex.ctxDone(st, c), not(eq(r.Term, intLit(0)))))
	ex.setCtxDone(st, c, not(eq(r.Term, intLit(0))))
	return []*Val{r}, true
}

func modelCtxCause(ex *Exec, st *State, fn *types.Func, args []*Val, e *ast.CallExpr) ([]*Val, bool) {
	c := args[0].Term
	r := ex.freshVal(st, "ctxcause", tErr)
	st.assume(implies(ex.ctxDone(st, c), not(eq(r.Term, intLit(0)))))
	ex.setCtxDone(st, c, not(eq(r.Term, intLit(0))))
	return []*Val{r}, true
}

// ---- errors

func (ex *Exec) errorsIs(a, b *Term) *Term { return ex.D.app("errors.Is", SBool, a, b) }

func (ex *Exec) errorAxioms() []*Term {
	if _, ok := ex.D.byName["errors.Is"]; !ok {
		return nil
	}
	t := mk("t?", SInt)
	return []*Term{
		forall([]*Term{t}, implies(not(eq(t, intLit(0))), not(ex.errorsIs(intLit(0), t))), []*Term{ex.errorsIs(intLit(0), t)}),
		forall([]*Term{t}, implies(not(eq(t, intLit(0))), ex.errorsIs(t, t)), []*Term{ex.errorsIs(t, t)}),
	}
}

func modelErrorf(ex *Exec, st *State, fn *types.Func, args []*Val, e *ast.CallExpr) ([]*Val, bool) {
	trusted(ex, "library contract: fmt.Errorf returns a fresh non-nil error; errors.Is(result,t) iff result==t or (format wraps with %w and) errors.Is(wrapped,t)")
	r := ex.newRef(st)
	wraps := false
	if e != nil && len(e.Args) > 0 {
		if tv, ok := ex.Info.Types[e.Args[0]]; ok && tv.Value != nil {
			wraps = strings.Contains(tv.Value.ExactString(), "%w")
		} else {
			wraps = true
		}
	}
	t := mk("t?", SInt)
	var inner *Term = tFalse
	if wraps && len(args) > 1 {
		// any error-typed variadic operand may be the wrapped one
		if els, ok := ex.variadicElems[args[1].Term.Op]; ok {
			for _, el := range els {
				if el.T != nil && types.Identical(el.T, tErr) && el.Term != nil {
					inner = or(inner, ex.errorsIs(el.Term, t))
				} else if el.Term != nil && el.Term.S == SInt && el.T != nil {
					if _, isIface := el.T.Underlying().(*types.Interface); isIface {
						inner = or(inner, ex.errorsIs(el.Term, t))
					}
				}
			}
		} else {
			inner = ex.fresh("wrapped.is", SBool)
		}
	}
	st.assume(forall([]*Term{t}, eq(ex.errorsIs(r, t), or(eq(r, t), inner)), []*Term{ex.errorsIs(r, t)}))
	return []*Val{{T: tErr, Term: r}}, true
}

func modelErrorsNew(ex *Exec, st *State, fn *types.Func, args []*Val, e *ast.CallExpr) ([]*Val, bool) {
	r := ex.newRef(st)
	t := mk("t?", SInt)
	st.assume(forall([]*Term{t}, eq(ex.errorsIs(r, t), eq(r, t)), []*Term{ex.errorsIs(r, t)}))
	return []*Val{{T: tErr, Term: r}}, true
}

func modelErrorsIs(ex *Exec, st *State, fn *types.Func, args []*Val, e *ast.CallExpr) ([]*Val, bool) {
	trusted(ex, "library contract: errors.Is as an uninterpreted predicate with reflexivity, nil and %w-wrapping axioms")
	return []*Val{{T: tBool, Term: ex.errorsIs(args[0].Term, args[1].Term)}}, true
}

// ---------------------------------------------------------------------
// locks

// lockOf finds the lock spec for the receiver expression of X.mu.Lock().
func (ex *Exec) lockOf(st *State, e *ast.CallExpr) (key string, recv *Val, ts *TypeSpec, ls *LockSpec) {
	if e == nil {
		return
	}
	sel, ok := ast.Unparen(e.Fun).(*ast.SelectorExpr)
	if !ok {
		return
	}
	muSel, ok := ast.Unparen(sel.X).(*ast.SelectorExpr)
	if !ok {
		return
	}
	rv := ex.expr(st, muSel.X)
	if rv == nil || rv.T == nil {
		return
	}
	base, isPtr := derefType(rv.T)
	if !isPtr {
		return
	}
	ts = ex.typeSpecFor(base)
	if ts == nil {
		return
	}
	ls = ts.Locks[muSel.Sel.Name]
	if ls == nil {
		return "", nil, nil, nil
	}
	n := base.(*types.Named)
	key = n.Obj().Name() + "." + muSel.Sel.Name
	recv = rv
	return
}

func (ex *Exec) lockClauseState(st *State, ts *TypeSpec, recv *Val, old *State) *State {
	cs := st
	cs.bound[ts.Recv] = recv
	if old != nil {
		cs.old = old
	}
	return cs
}

func modelLock(ex *Exec, st *State, fn *types.Func, args []*Val, e *ast.CallExpr) ([]*Val, bool) {
	key, recv, ts, ls := ex.lockOf(st, e)
	if ls == nil {
		return nil, true
	}
	trusted(ex, "sync.Mutex provides mutual exclusion; lock invariant of "+key+" assumed at Lock with protected fields havocked, asserted at Unlock")
	ex.lockOrderCheck(st, key, e.Pos())
	if ex.locksTaken == nil {
		ex.locksTaken = map[string]bool{}
	}
	ex.locksTaken[key] = true
	if _, held := st.held[key]; held {
		ex.oblige(st, "deadlock", key, e.Pos(), tFalse, nil)
	}
	base, _ := derefType(recv.T)
	// havoc protected fields at this receiver
	for _, f := range ls.Protects {
		ft := ex.fieldTypeByName(base, f)
		if ft == nil {
			ex.specFail("lock %s protects unknown field %s", key, f)
		}
		nv := ex.freshVal(st, "locked."+f, ft)
		ex.writeField(st, recv.Term, base, f, ft, nv.Term)
	}
	st.held[key] = &lockHeld{recv: recv.Term, ts: ts, ls: ls}
	u := ex.unitOfType(base)
	savedOld := st.old
	prevBound, hadBound := st.bound[ts.Recv]
	st.bound[ts.Recv] = recv
	saveNL := ex.specNoLocals
	ex.specNoLocals = false
	for _, c := range ls.Inv {
		g := ex.evalSpecBool(st, c.Expr, u, fmt.Sprintf("%s:%d lockinv %s", c.File, c.Line, c.Label))
		st.assume(g)
	}
	if lu := st.lastUnlock[key]; lu == nil {
		for _, c := range ls.Fresh {
			g := ex.evalSpecBool(st, c.Expr, u, fmt.Sprintf("%s:%d fresh %s", c.File, c.Line, c.Label))
			st.assume(g)
			trusted(ex, "ghost activation tokens are unique: at an activation's first Lock no slot is owned by it ("+key+" fresh clause "+c.Label+")")
		}
	} else {
		st.old = lu
		for _, c := range ls.Rely {
			g := ex.evalSpecBool(st, c.Expr, u, fmt.Sprintf("%s:%d rely %s", c.File, c.Line, c.Label))
			st.assume(g)
		}
		st.old = savedOld
	}
	ex.specNoLocals = saveNL
	if hadBound {
		st.bound[ts.Recv] = prevBound
	} else {
		delete(st.bound, ts.Recv)
	}
	snap := st.clone()
	st.held[key].snap = snap
	return nil, true
}

func modelUnlock(ex *Exec, st *State, fn *types.Func, args []*Val, e *ast.CallExpr) ([]*Val, bool) {
	key, recv, ts, ls := ex.lockOf(st, e)
	if ls == nil {
		return nil, true
	}
	lh, held := st.held[key]
	if !held {
		ex.oblige(st, "unlock-unheld", key, e.Pos(), tFalse, nil)
		return nil, true
	}
	base, _ := derefType(recv.T)
	u := ex.unitOfType(base)
	ex.unlockOrd[key]++
	savedOld := st.old
	prevBound, hadBound := st.bound[ts.Recv]
	st.bound[ts.Recv] = recv
	site := ex.unlockSite(e)
	for _, c := range ls.Inv {
		g := ex.evalSpecBool(st, c.Expr, u, fmt.Sprintf("%s:%d lockinv %s", c.File, c.Line, c.Label))
		ex.oblige(st, "lockinv", labelOr(c.Label, "inv")+"#"+site, e.Pos(), g, c.Props)
	}
	st.old = lh.snap
	for _, c := range ls.Guarantee {
		g := ex.evalSpecBool(st, c.Expr, u, fmt.Sprintf("%s:%d guarantee %s", c.File, c.Line, c.Label))
		ex.oblige(st, "guarantee", labelOr(c.Label, "g")+"#"+site, e.Pos(), g, c.Props)
	}
	st.old = savedOld
	if hadBound {
		st.bound[ts.Recv] = prevBound
	} else {
		delete(st.bound, ts.Recv)
	}
	delete(st.held, key)
	st.lastUnlock[key] = st.clone()
	return nil, true
}

// unlockSite names an Unlock call site: "defer" for deferred ones, else ordinal in source order.
func (ex *Exec) unlockSite(e *ast.CallExpr) string {
	if n, ok := ex.unlockSites[e.Pos()]; ok {
		return n
	}
	return "u"
}

// guardedAccess checks that a lock-protected field is only touched with the lock held.
func (ex *Exec) guardedAccess(st *State, recv *Val, base types.Type, fname string, pos token.Pos) {
	ex.guardedAccessName(st, "", base, fname, pos, nil)
}

func (ex *Exec) guardedAccessName(st *State, heapName string, base types.Type, fname string, pos token.Pos, cond *Term) {
	if ex.inSpec() && !ex.ghostExec {
		return
	}
	ts := ex.typeSpecFor(base)
	if ts == nil {
		return
	}
	n, ok := base.(*types.Named)
	if !ok {
		return
	}
	for lname, ls := range ts.Locks {
		for _, p := range ls.Protects {
			if p != fname {
				continue
			}
			key := n.Obj().Name() + "." + lname
			_, held := st.held[key]
			if ex.constructing[n.Obj().Name()] {
				held = true
			}
			if cond != nil && !held {
				ex.oblige(st, "guarded-by", key+"."+fname, pos, not(cond), nil)
				continue
			}
			ex.obligeAST("guarded-by", key+"."+fname, pos, held, fmt.Sprintf("%s: field %s accessed without holding %s", ex.posStr(pos), fname, key), nil)
		}
	}
}

// ---------------------------------------------------------------------
// state merging (used when an inlined closure returns on several paths)

func (ex *Exec) mergeStates(prefix int, outs []flowOut, nres int) (*State, []*Val) {
	if len(outs) == 1 {
		return outs[0].st, outs[0].rets
	}
	guards := make([]*Term, len(outs))
	m := outs[0].st.clone()
	m.pc = append([]*Term(nil), outs[0].st.pc[:prefix]...)
	for i, o := range outs {
		// name each path guard so that later terms stay small
		g := ex.fresh("pathg", SBool)
		var qf, quant []*Term
		for _, f := range o.st.pc[min(prefix, len(o.st.pc)):] {
			if hasQuantifier(f) {
				quant = append(quant, f)
			} else {
				qf = append(qf, f)
			}
		}
		// the guard is the quantifier-free part (branch conditions and
		// definitions); quantified facts of the path hold under the guard
		m.pc = append(m.pc, eq(g, and(qf...)))
		for _, f := range quant {
			m.pc = append(m.pc, implies(g, f))
		}
		guards[i] = g
	}
	m.pc = append(m.pc, or(guards...))
	name := func(t *Term) *Term {
		if t == nil || t.Op != "ite" {
			return t
		}
		c := ex.fresh("mrg", t.S)
		m.pc = append(m.pc, eq(c, t))
		return c
	}
	pick := func(get func(*State) *Term) *Term {
		var res *Term
		same := true
		first := get(outs[0].st)
		for _, o := range outs[1:] {
			if get(o.st) != first {
				same = false
			}
		}
		if same {
			return first
		}
		for i := len(outs) - 1; i >= 0; i-- {
			t := get(outs[i].st)
			if t == nil {
				continue
			}
			if res == nil {
				res = t
			} else if t.S == res.S {
				res = ite(guards[i], t, res)
			}
		}
		return res
	}
	// vars
	objs := map[types.Object]bool{}
	for _, o := range outs {
		for k := range o.st.vars {
			objs[k] = true
		}
	}
	for k := range objs {
		var proto *Val
		allTerm := true
		for _, o := range outs {
			v := o.st.vars[k]
			if v == nil || v.Term == nil {
				allTerm = false
			}
			if v != nil && proto == nil {
				proto = v
			}
		}
		if !allTerm {
			if proto != nil {
				m.vars[k] = proto
			}
			continue
		}
		t := name(pick(func(s *State) *Term { return s.vars[k].Term }))
		m.vars[k] = &Val{T: proto.T, Term: t}
	}
	// heaps
	hs := map[string]bool{}
	for _, o := range outs {
		for k := range o.st.heaps {
			hs[k] = true
		}
	}
	var hn []string
	for k := range hs {
		hn = append(hn, k)
	}
	sort.Strings(hn)
	for _, k := range hn {
		t := pick(func(s *State) *Term {
			if h, ok := s.heaps[k]; ok {
				return h
			}
			// heap first touched on another path: here it still has its initial value
			if srt, ok := ex.heapSorts[k]; ok {
				return ex.D.konst(k+"@0", srt)
			}
			return nil
		})
		if t != nil {
			m.heaps[k] = name(t)
		}
	}
	// ghosts
	for k, g := range outs[0].st.ghost {
		k := k
		t := pick(func(s *State) *Term {
			if v := s.ghost[k]; v != nil {
				return v.Term
			}
			return nil
		})
		if t != nil {
			m.ghost[k] = &Val{T: g.T, Term: name(t)}
		}
	}
	// results
	var rets []*Val
	for i := 0; i < nres; i++ {
		i := i
		var proto *Val
		for _, o := range outs {
			if i < len(o.rets) && o.rets[i] != nil {
				proto = o.rets[i]
				break
			}
		}
		if proto == nil {
			continue
		}
		var res *Term
		for j := len(outs) - 1; j >= 0; j-- {
			if i >= len(outs[j].rets) || outs[j].rets[i] == nil || outs[j].rets[i].Term == nil {
				continue
			}
			t := outs[j].rets[i].Term
			if res == nil {
				res = t
			} else {
				res = ite(guards[j], t, res)
			}
		}
		if res == nil {
			rets = append(rets, proto)
		} else {
			rets = append(rets, &Val{T: proto.T, Term: name(res)})
		}
	}
	return m, rets
}

func hasQuantifier(t *Term) bool {
	if t == nil {
		return false
	}
	if t.Op == "forall" || t.Op == "exists" {
		return true
	}
	for _, a := range t.Args {
		if hasQuantifier(a) {
			return true
		}
	}
	return false
}
