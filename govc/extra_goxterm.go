package main

// extra_goxterm.go - structural obligations on the terminal library the
// program is built against (C19).  The lock-order obligation of the Ctrl+O
// handler rests on three statements about github.com/magisterquis/goxterm:
// Terminal.Write (and SetPrompt, SetSize, ReadLine) take the terminal's lock,
// keys are handled with that lock held, and the control-character callback is
// called from the key handler.  They are library contracts
// (/verif/contracts/stdlib.spec, `acquires`; `holds` on the callback); here
// they are checked against the source of the very module version the tree
// under check resolves (go list -m, module cache, offline), on every run.

import (
	"encoding/json"
	"fmt"
	"go/ast"
	"go/parser"
	"go/token"
	"os"
	"os/exec"
	"path/filepath"
	"strings"
)

func init() {
	extraChecks["C19"] = append(extraChecks["C19"], func(w *World, tier string, seed int64) extraResult { return goxtermLocking(w) })
}

func goxtermLocking(w *World) extraResult {
	var res extraResult
	const fn = "goxterm.Terminal"
	mk := func(name string, ok bool, msg string) {
		ob := &Obligation{Name: fn + "/structural@" + name, Kind: "structural", Func: fn, Props: []string{"C19"}, Backend: "ast", ASTOK: ok, Solver: "ast-check"}
		if ok {
			ob.Verdict = "discharged"
		} else {
			ob.Verdict = "undischarged"
			ob.Detail = msg
		}
		res.Obligations = append(res.Obligations, ob)
	}
	cmd := exec.Command("go", "list", "-m", "-json", "github.com/magisterquis/goxterm")
	cmd.Dir = repoRoot
	cmd.Env = append(os.Environ(), "GOFLAGS=-mod=mod", "GOPROXY=off", "GOSUMDB=off", "GOTOOLCHAIN=local")
	out, err := cmd.Output()
	var mod struct{ Dir, Version string }
	if err == nil {
		err = json.Unmarshal(out, &mod)
	}
	if err != nil || mod.Dir == "" {
		mk("module_source_found", false, fmt.Sprintf("cannot locate the goxterm module the tree is built against: %v", err))
		return res
	}
	fset := token.NewFileSet()
	methods := map[string]*ast.FuncDecl{}
	files, _ := filepath.Glob(filepath.Join(mod.Dir, "*.go"))
	for _, f := range files {
		if strings.HasSuffix(f, "_test.go") {
			continue
		}
		af, err := parser.ParseFile(fset, f, nil, 0)
		if err != nil {
			continue
		}
		for _, d := range af.Decls {
			fd, ok := d.(*ast.FuncDecl)
			if !ok || fd.Recv == nil || len(fd.Recv.List) != 1 || fd.Body == nil {
				continue
			}
			if recvTypeName(fd.Recv.List[0].Type) == "Terminal" {
				methods[fd.Name.Name] = fd
			}
		}
	}
	recvName := func(fd *ast.FuncDecl) string {
		if len(fd.Recv.List[0].Names) == 1 {
			return fd.Recv.List[0].Names[0].Name
		}
		return ""
	}
	// x.lock.Lock() as the first statement, defer x.lock.Unlock() as the second
	locksWholeBody := func(fd *ast.FuncDecl) bool {
		if fd == nil || len(fd.Body.List) < 2 {
			return false
		}
		r := recvName(fd)
		es, ok := fd.Body.List[0].(*ast.ExprStmt)
		if !ok || exprText(es.X) != r+".lock.Lock()" {
			return false
		}
		ds, ok := fd.Body.List[1].(*ast.DeferStmt)
		return ok && exprText(ds.Call) == r+".lock.Unlock()"
	}
	calls := func(fd *ast.FuncDecl, what string) bool {
		if fd == nil {
			return false
		}
		found := false
		ast.Inspect(fd.Body, func(n ast.Node) bool {
			if c, ok := n.(*ast.CallExpr); ok && exprText(c.Fun) == what {
				found = true
			}
			return !found
		})
		return found
	}
	for _, m := range []string{"Write", "SetPrompt", "SetSize", "ReadLine"} {
		mk(m+"_takes_the_terminals_lock_for_its_whole_body", locksWholeBody(methods[m]),
			fmt.Sprintf("goxterm %s: (*Terminal).%s does not start with lock.Lock(); defer lock.Unlock() - the library contract `acquires goxterm.Terminal.lock` no longer describes it", mod.Version, m))
	}
	rl, hk := methods["ReadLine"], methods["handleKey"]
	okChain := rl != nil && hk != nil && calls(rl, recvName(rl)+".readLine") && methods["readLine"] != nil &&
		calls(methods["readLine"], recvName(methods["readLine"])+".handleKey")
	mk("keys_are_handled_under_the_lock_ReadLine_holds", okChain && locksWholeBody(rl),
		fmt.Sprintf("goxterm %s: ReadLine -> readLine -> handleKey under ReadLine's lock is not what the source says any more", mod.Version))
	mk("the_control_character_callback_is_called_from_the_key_handler", hk != nil && calls(hk, recvName(hk)+".ControlCharacterCallback"),
		fmt.Sprintf("goxterm %s: handleKey does not call ControlCharacterCallback - the `holds goxterm.Terminal.lock` clause on the callback no longer describes the library", mod.Version))
	// the lock is released around the blocking read only (so a writer can get in between keys)
	res.Notes = append(res.Notes, "goxterm "+mod.Version+" ("+mod.Dir+"): the locking facts behind the lock-order obligation are checked against the module's source")
	return res
}
