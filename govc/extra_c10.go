package main

// extra_c10.go - module-wide constfmt obligations (C10): every call of a
// printf-style function passes either a compile-time constant format or the
// caller's own format parameter together with the caller's own variadic.

import (
	"go/constant"
	"fmt"
	"go/ast"
	"go/types"
	"sort"
	"strings"
)

func init() {
	extraChecks["C10"] = append(extraChecks["C10"], constfmtCheck)
}

// printfStyle reports the index of the format parameter if sig looks like
// func(..., format string, args ...any).
func printfStyle(sig *types.Signature) (int, bool) {
	if !sig.Variadic() || sig.Params().Len() < 2 {
		return 0, false
	}
	n := sig.Params().Len()
	last := sig.Params().At(n - 1).Type().(*types.Slice).Elem()
	if iface, ok := last.Underlying().(*types.Interface); !ok || iface.NumMethods() != 0 {
		return 0, false
	}
	f := sig.Params().At(n - 2)
	if !isString(f.Type()) {
		return 0, false
	}
	if f.Name() != "format" && f.Name() != "msg" && f.Name() != "f" {
		// stdlib and this module name the parameter "format"
		if f.Name() != "format" {
			return 0, false
		}
	}
	if f.Name() != "format" {
		return 0, false
	}
	return n - 2, true
}

// verbsFit checks a constant format against the number of arguments passed:
// every verb known to fmt, %w only where fmt.Errorf interprets it, as many
// verbs as arguments.  Formats using explicit argument indexes or * are only
// checked for their verbs.
func verbsFit(format string, nargs int, isErrorf bool) string {
	// fmt's own argument numbering is simulated: each verb takes argument
	// argNum and advances it; %[n] sets argNum to n first (and numbering goes
	// on from there); * takes an argument for width or precision.  Every
	// argument must be used by some verb and no verb may run past the list.
	used := make([]bool, nargs+1)
	argNum := 1
	take := func() string {
		if argNum < 1 || argNum > nargs {
			return fmt.Sprintf("a verb refers to argument %d but %d are passed (the notice would contain %%!v(MISSING) or %%!(BADINDEX))", argNum, nargs)
		}
		used[argNum] = true
		argNum++
		return ""
	}
	for i := 0; i < len(format); i++ {
		if format[i] != '%' {
			continue
		}
		i++
		if i >= len(format) {
			return "format ends in a lone %"
		}
		if format[i] == '%' {
			continue
		}
		for i < len(format) && strings.ContainsRune("+-# 0123456789.*[", rune(format[i])) {
			switch format[i] {
			case '*':
				if m := take(); m != "" {
					return m
				}
			case '[':
				j := strings.IndexByte(format[i:], ']')
				if j < 0 {
					return "unterminated %[ in a constant format"
				}
				n := 0
				for _, c := range format[i+1 : i+j] {
					if c < '0' || c > '9' {
						return "bad argument index in a constant format"
					}
					n = n*10 + int(c-'0')
				}
				argNum = n
				i += j
			}
			i++
		}
		if i >= len(format) {
			return "format ends inside a verb"
		}
		v := format[i]
		if !strings.ContainsRune("vTtbcdoOqxXUeEfFgGspw", rune(v)) {
			return fmt.Sprintf("unknown verb %%%c in a constant format", v)
		}
		if v == 'w' && !isErrorf {
			return "%w is only interpreted by fmt.Errorf; here the notice would contain %!w(...)"
		}
		if m := take(); m != "" {
			return m
		}
	}
	for k := 1; k <= nargs; k++ {
		if !used[k] {
			return fmt.Sprintf("argument %d of %d is used by no verb of the constant format (it would be missing from the notice, or appear as %%!(EXTRA ...))", k, nargs)
		}
	}
	return ""
}

func constfmtCheck(w *World, tier string, seed int64) extraResult {
	var res extraResult
	var paths []string
	for p := range w.Units {
		paths = append(paths, p)
	}
	sort.Strings(paths)
	for _, p := range paths {
		u := w.Units[p]
		info := u.Pkg.TypesInfo
		for _, file := range u.Pkg.Syntax {
			fname := w.Fset.Position(file.Pos()).Filename
			if strings.HasSuffix(fname, "_test.go") {
				continue
			}
			// walk with a stack of enclosing function signatures
			type encl struct {
				name     string
				formatP  types.Object
				variadic types.Object
			}
			ord := map[string]int{}
			var visit func(n ast.Node, cur *encl)
			enclOf := func(name string, ft *ast.FuncType) *encl {
				e := &encl{name: name}
				if ft.Params == nil {
					return e
				}
				var objs []types.Object
				for _, f := range ft.Params.List {
					for _, n := range f.Names {
						objs = append(objs, info.Defs[n])
					}
				}
				if len(objs) >= 2 {
					last := ft.Params.List[len(ft.Params.List)-1]
					if _, isEll := last.Type.(*ast.Ellipsis); isEll {
						e.variadic = objs[len(objs)-1]
						if fo := objs[len(objs)-2]; fo != nil && isString(fo.Type()) {
							e.formatP = fo
						}
					}
				}
				return e
			}
			visit = func(n ast.Node, cur *encl) {
				ast.Inspect(n, func(x ast.Node) bool {
					if x == nil || x == n {
						return true
					}
					switch y := x.(type) {
					case *ast.FuncDecl:
						name := y.Name.Name
						if y.Recv != nil && len(y.Recv.List) > 0 {
							name = recvTypeName(y.Recv.List[0].Type) + "." + name
						}
						if y.Body != nil {
							visit(y.Body, enclOf(name, y.Type))
						}
						return false
					case *ast.FuncLit:
						nm := "func"
						if cur != nil {
							nm = cur.name + "#lit"
						}
						visit(y.Body, enclOf(nm, y.Type))
						return false
					case *ast.CallExpr:
						tv, ok := info.Types[y.Fun]
						if !ok || tv.IsType() {
							return true
						}
						sig, ok := tv.Type.Underlying().(*types.Signature)
						if !ok {
							return true
						}
						idx, ok := printfStyle(sig)
						if !ok || idx >= len(y.Args) {
							return true
						}
						callee := exprText(y.Fun)
						owner := "init"
						if cur != nil {
							owner = cur.name
						}
						key := u.Short + "." + owner + "/constfmt@" + callee
						ord[key]++
						name := fmt.Sprintf("%s#%d", key, ord[key])
						arg := y.Args[idx]
						okc := false
						why := ""
						if atv, ok := info.Types[arg]; ok && atv.Value != nil {
							okc = true
							// a constant format must also fit its arguments: no verb
							// the formatter would render as an artefact (%!w(...),
							// %!(EXTRA ...), %!v(MISSING))
							if atv.Value.Kind() == constant.String && !y.Ellipsis.IsValid() {
								if msg := verbsFit(constant.StringVal(atv.Value), len(y.Args)-idx-1, callee == "fmt.Errorf"); msg != "" {
									okc = false
									why = msg
								}
							}
						} else if id, isID := ast.Unparen(arg).(*ast.Ident); isID && cur != nil && cur.formatP != nil && info.Uses[id] == cur.formatP {
							// forwarded format: must forward the caller's own variadic too
							if y.Ellipsis.IsValid() && len(y.Args) == idx+2 {
								if vid, ok := ast.Unparen(y.Args[idx+1]).(*ast.Ident); ok && info.Uses[vid] == cur.variadic {
									okc = true
								}
							}
							if !okc {
								why = "format parameter forwarded without the caller's own variadic"
							}
						} else {
							why = "computed string in the format position"
						}
						pos := w.Fset.Position(y.Pos())
						fn := pos.Filename
						if i := strings.Index(fn, "/repo/"); i >= 0 {
							fn = fn[i+6:]
						}
						ob := &Obligation{Name: name, Kind: "constfmt", Func: u.Short + "." + owner, Props: []string{"C10"},
							Pos: fmt.Sprintf("%s:%d", fn, pos.Line), Backend: "ast", ASTOK: okc, Solver: "ast-check"}
						if okc {
							ob.Verdict = "discharged"
						} else {
							ob.Verdict = "undischarged"
							ob.Detail = fmt.Sprintf("%s:%d: %s: %s(%s, ...)", fn, pos.Line, why, callee, exprText(arg))
						}
						res.Obligations = append(res.Obligations, ob)
					}
					return true
				})
			}
			visit(file, nil)
		}
	}
	res.Notes = append(res.Notes, fmt.Sprintf("constfmt: %d printf-style call sites enumerated over %d packages (exhaustive)", len(res.Obligations), len(paths)))
	return res
}
