package main

import (
	"fmt"
	"os"
	"sort"
	"strings"
)

func usage() {
	fmt.Fprintln(os.Stderr, `usage:
  govc verify <pkgdir> [func ...]      generate and discharge the obligations of functions under contract (debug)
  govc check <Cxx> [--tier quick|thorough]
  govc replay <file>
  govc selftest`)
	os.Exit(2)
}

func main() {
	if len(os.Args) < 2 {
		usage()
	}
	switch os.Args[1] {
	case "verify":
		cmdVerify(os.Args[2:])
	case "check":
		os.Exit(cmdCheck(os.Args[2:]))
	case "replay":
		os.Exit(cmdReplay(os.Args[2:]))
	case "locals":
		os.Exit(cmdLocals(os.Args[2:]))
	default:
		usage()
	}
}

func cmdVerify(args []string) {
	if len(args) < 1 {
		usage()
	}
	verbose := os.Getenv("GOVC_V") != ""
	w, err := loadWorld(allPkgDirs)
	if err != nil {
		fmt.Fprintln(os.Stderr, "load:", err)
		os.Exit(2)
	}
	var u *Unit
	for _, x := range w.Units {
		if x.Short == args[0] {
			u = x
		}
	}
	for _, x := range w.Units {
		if u == nil && strings.HasSuffix(x.Pkg.PkgPath, "/"+strings.TrimPrefix(args[0], "./")) {
			u = x
		}
	}
	if u == nil {
		fmt.Fprintln(os.Stderr, "no such package", args[0])
		os.Exit(2)
	}
	names := args[1:]
	if len(names) == 0 {
		for n := range u.FSpecs {
			if !u.FSpecs[n].Trusted {
				names = append(names, n)
			}
		}
		sort.Strings(names)
	}
	var exs []*Exec
	for _, n := range names {
		ex, err := w.verifyFunc(u, n)
		if err != nil {
			fmt.Println("ERROR", err)
			continue
		}
		exs = append(exs, ex)
	}
	if len(args) == 1 && u.Specs != nil {
		for _, l := range u.Specs.Lemmas {
			ex, err := w.verifyLemma(l)
			if err != nil {
				fmt.Println("ERROR", err)
				continue
			}
			exs = append(exs, ex)
		}
	}
	dir, _ := os.MkdirTemp("", "govc")
	if os.Getenv("GOVC_KEEP") == "" {
		defer os.RemoveAll(dir)
	} else {
		fmt.Println("smt files in", dir)
	}
	tmo := 10
	if v := os.Getenv("GOVC_TIMEOUT"); v != "" {
		fmt.Sscanf(v, "%d", &tmo)
	}
	dischargeAll(exs, dischargeOpts{timeoutS: tmo, dir: dir, jobs: 5})
	bad := 0
	for _, ex := range exs {
		for _, n := range ex.ObOrd {
			ob := ex.Obs[n]
			if ob.Verdict != "discharged" {
				bad++
			}
			if ob.Verdict != "discharged" || verbose {
				fmt.Printf("%-14s %-70s q=%d %s %dms %s\n", ob.Verdict, ob.Name, len(ob.Queries), ob.Solver, ob.Ms, firstLines(ob.Detail, 4))
				if len(ob.Model) > 0 {
					fmt.Printf("    model: %v\n", ob.Model)
				}
			}
		}
		fmt.Printf("== %s: %d obligations, paths=%d\n", ex.FName, len(ex.ObOrd), ex.paths)
	}
	var notes []string
	for k := range w.Unsup {
		notes = append(notes, "unsupported: "+k)
	}
	for k := range w.Abstr {
		notes = append(notes, "abstracted: "+k)
	}
	sort.Strings(notes)
	for _, n := range notes {
		fmt.Println(n)
	}
	fmt.Println("undischarged:", bad)
}

var allPkgDirs = []string{"..."}
