package main

// check.go - the per-property check command: obligations, known findings,
// VIOLATION lines, replay files, evidence.

import (
	"go/types"
	"go/ast"
	"encoding/json"
	"fmt"
	"os"
	"path/filepath"
	"regexp"
	"sort"
	"strconv"
	"strings"
	"time"
)

const verifRoot = "/verif"

// outRoot: where evidence and replay files go; a scratch directory when a
// tree other than /repo is being checked (selftest, seeded changes).
func outRoot() string {
	if os.Getenv("GOVC_REPO") != "" {
		d := envOr("GOVC_OUT", "/tmp/govc-alt")
		os.MkdirAll(d, 0o755)
		return d
	}
	return verifRoot
}

type knownFinding struct {
	Status     string // open | fixed
	Property   string
	Obligation string
	Exclude    string
	Text       string
}

var reKF = regexp.MustCompile(`^(open|fixed):\s+property=(\S+)\s+(.*)$`)

func loadKnownFindings() []knownFinding {
	data, err := os.ReadFile(filepath.Join(verifRoot, "known_findings.txt"))
	if err != nil {
		return nil
	}
	var out []knownFinding
	for _, line := range strings.Split(string(data), "\n") {
		line = strings.TrimSpace(line)
		if line == "" || strings.HasPrefix(line, "#") {
			continue
		}
		m := reKF.FindStringSubmatch(line)
		if m == nil {
			continue
		}
		kf := knownFinding{Status: m[1], Property: m[2], Text: m[3]}
		rest := m[3]
		if i := strings.Index(rest, "obligation="); i >= 0 {
			r := rest[i+len("obligation="):]
			if strings.HasPrefix(r, `"`) {
				if j := strings.Index(r[1:], `"`); j >= 0 {
					kf.Obligation = r[1 : j+1]
				}
			} else {
				kf.Obligation = strings.Fields(r)[0]
			}
		}
		if i := strings.Index(rest, "exclude="); i >= 0 {
			r := rest[i+len("exclude="):]
			if strings.HasPrefix(r, `"`) {
				if j := strings.Index(r[1:], `"`); j >= 0 {
					kf.Exclude = r[1 : j+1]
				}
			} else if strings.HasPrefix(r, "`") {
				if j := strings.Index(r[1:], "`"); j >= 0 {
					kf.Exclude = r[1 : j+1]
				}
			}
		}
		out = append(out, kf)
	}
	return out
}

// extraCheck is a non-SMT part of a property's check (structural template
// facts, spec validation against an external oracle, bounded stand-ins).
type extraResult struct {
	Obligations []*Obligation
	Bounded     []map[string]any
	Notes       []string
	Trusted     []string
}

type extraCheck func(w *World, tier string, seed int64) extraResult

var extraChecks = map[string][]extraCheck{}

// propertyTargets: which functions (and lemmas) carry obligations of a property.
func propertyTargets(w *World, prop string) (funcs []struct {
	u    *Unit
	name string
}, lemmas []*Lemma) {
	has := func(ps []string) bool {
		for _, p := range ps {
			if p == prop {
				return true
			}
		}
		return false
	}
	var paths []string
	for p := range w.Units {
		paths = append(paths, p)
	}
	sort.Strings(paths)
	for _, p := range paths {
		u := w.Units[p]
		if u.Specs == nil {
			continue
		}
		for _, fs := range u.Specs.Funcs {
			if fs.Trusted {
				continue
			}
			ok := has(fs.Props)
			for _, c := range fs.Requires {
				ok = ok || has(c.Props)
			}
			for _, c := range fs.Ensures {
				ok = ok || has(c.Props)
			}
			for _, h := range fs.Hooks {
				ok = ok || has(h.Props)
			}
			for _, l := range fs.Loops {
				for _, c := range l.Invs {
					ok = ok || has(c.Props)
				}
			}
			if ok {
				funcs = append(funcs, struct {
					u    *Unit
					name string
				}{u, fs.Name})
			}
		}
		for _, l := range u.Specs.Lemmas {
			if has(l.Props) {
				lemmas = append(lemmas, l)
			}
		}
	}
	if w.Lib != nil {
		for _, l := range w.Lib.Lemmas {
			if has(l.Props) {
				lemmas = append(lemmas, l)
			}
		}
	}
	return
}

func hasProp(ps []string, p string) bool {
	for _, x := range ps {
		if x == p {
			return true
		}
	}
	return false
}

func cmdCheck(args []string) int {
	if len(args) < 1 {
		usage()
	}
	prop := args[0]
	tier := os.Getenv("VERIF_TIER")
	for i := 1; i < len(args); i++ {
		if args[i] == "--tier" && i+1 < len(args) {
			tier = args[i+1]
			i++
		}
	}
	if tier == "" {
		tier = "quick"
	}
	seed := int64(1)
	if s := os.Getenv("VERIF_SEED"); s != "" {
		if n, err := strconv.ParseInt(s, 10, 64); err == nil {
			seed = n
		}
	}
	t0 := time.Now()
	evPath := filepath.Join(outRoot(), "evidence", prop+".json")
	os.MkdirAll(filepath.Dir(evPath), 0o755)
	broken := func(msg string) int {
		fmt.Printf("BROKEN check for %s: %s\n", prop, msg)
		ev := map[string]any{"property_id": prop, "tier": tier, "seed": seed, "level": "other",
			"coverage": map[string]any{"explanation": "check could not run: " + msg, "obligations": 0, "discharged": 0},
			"wall_s": time.Since(t0).Seconds(), "violations": 0}
		b, _ := json.MarshalIndent(ev, "", " ")
		os.WriteFile(evPath, b, 0o644)
		return 2
	}
	w, err := loadWorld(allPkgDirs)
	if err != nil {
		return broken("loading /repo: " + err.Error())
	}
	funcs, lemmas := propertyTargets(w, prop)
	if len(funcs) == 0 && len(lemmas) == 0 && len(extraChecks[prop]) == 0 {
		return broken("no function, lemma or extra check carries this property (contract files missing?)")
	}
	// helpers: functions under contract that the property's functions call
	// (two levels) carry the property as well - a notice helper that drops a
	// line, or a constructor that mis-initialises, breaks the property even
	// though its own contract was written for another one
	helper := map[string]bool{}
	{
		have := map[string]bool{}
		for _, f := range funcs {
			have[f.u.Pkg.PkgPath+"\x00"+f.name] = true
		}
		// callers: a function under contract that calls one of the property's
		// functions (one level up) carries the property too - the caller can
		// break what the callee guarantees (start it with `go` and not wait,
		// hand it another table, ...)
		var callers []struct {
			u    *Unit
			name string
		}
		orig := map[string]bool{}
		for _, f := range funcs {
			base := f.name
			if i := strings.Index(base, "#"); i >= 0 {
				base = base[:i]
			}
			orig[f.u.Pkg.PkgPath+"\x00"+base] = true
		}
		frontier := funcs
		for depth := 0; depth < 2; depth++ {
			var next []struct {
				u    *Unit
				name string
			}
			for _, f := range frontier {
				base := f.name
				if i := strings.Index(base, "#"); i >= 0 {
					base = base[:i]
				}
				fd := f.u.Funcs[base]
				if fd == nil || fd.Body == nil {
					continue
				}
				info := f.u.Pkg.TypesInfo
				ast.Inspect(fd.Body, func(x ast.Node) bool {
					call, ok := x.(*ast.CallExpr)
					if !ok {
						return true
					}
					var obj types.Object
					switch fn := ast.Unparen(call.Fun).(type) {
					case *ast.Ident:
						obj = info.Uses[fn]
					case *ast.SelectorExpr:
						obj = info.Uses[fn.Sel]
					}
					tf, ok := obj.(*types.Func)
					if !ok || tf.Pkg() == nil {
						return true
					}
					cu := w.Units[tf.Pkg().Path()]
					if cu == nil || cu.Specs == nil {
						return true
					}
					key := calleeKey(tf)
					short := key[strings.Index(key, ".")+1:]
					fs := cu.FSpecs[short]
					if fs == nil || fs.Trusted {
						return true
					}
					// the callee and its closures
					for _, cand := range cu.Specs.Funcs {
						if cand.Name == short || strings.HasPrefix(cand.Name, short+"#") {
							k := cu.Pkg.PkgPath + "\x00" + cand.Name
							if !have[k] {
								have[k] = true
								helper[cu.Short+"."+cand.Name] = true
								item := struct {
									u    *Unit
									name string
								}{cu, cand.Name}
								funcs = append(funcs, item)
								next = append(next, item)
							}
						}
					}
					return true
				})
			}
			frontier = next
		}
		var unitNames []string
		for pth := range w.Units {
			unitNames = append(unitNames, pth)
		}
		sort.Strings(unitNames)
		for _, pth := range unitNames {
			cu := w.Units[pth]
			if cu.Specs == nil {
				continue
			}
			for _, cand := range cu.Specs.Funcs {
				if cand.Trusted || have[cu.Pkg.PkgPath+"\x00"+cand.Name] {
					continue
				}
				base := cand.Name
				if i := strings.Index(base, "#"); i >= 0 {
					base = base[:i]
				}
				fd := cu.Funcs[base]
				if fd == nil || fd.Body == nil {
					continue
				}
				info := cu.Pkg.TypesInfo
				callsOrig := false
				ast.Inspect(fd.Body, func(x ast.Node) bool {
					call, ok := x.(*ast.CallExpr)
					if !ok || callsOrig {
						return !callsOrig
					}
					var obj types.Object
					switch fn := ast.Unparen(call.Fun).(type) {
					case *ast.Ident:
						obj = info.Uses[fn]
					case *ast.SelectorExpr:
						obj = info.Uses[fn.Sel]
					}
					if tf, ok := obj.(*types.Func); ok && tf.Pkg() != nil {
						key := calleeKey(tf)
						if tf.Pkg().Path() == cu.Pkg.PkgPath && orig[tf.Pkg().Path()+"\x00"+key[strings.Index(key, ".")+1:]] {
							callsOrig = true
						}
					}
					return true
				})
				if callsOrig {
					have[cu.Pkg.PkgPath+"\x00"+cand.Name] = true
					helper[cu.Short+"."+cand.Name] = true
					callers = append(callers, struct {
						u    *Unit
						name string
					}{cu, cand.Name})
				}
			}
		}
		// constructors: a function under contract that returns the receiver
		// type of one of the property's methods builds the state those
		// methods run on (hsrv.New resolving the files directory once, at
		// start-up, breaks C09 without touching fileHandler)
		recvTypes := map[string]map[string]bool{} // package path -> type names
		for k := range orig {
			i := strings.Index(k, "\x00")
			pth, name := k[:i], k[i+1:]
			if j := strings.Index(name, "."); j > 0 {
				if recvTypes[pth] == nil {
					recvTypes[pth] = map[string]bool{}
				}
				recvTypes[pth][name[:j]] = true
			}
		}
		for _, pth := range unitNames {
			cu := w.Units[pth]
			if cu.Specs == nil || recvTypes[pth] == nil {
				continue
			}
			for _, cand := range cu.Specs.Funcs {
				if cand.Trusted || have[cu.Pkg.PkgPath+"\x00"+cand.Name] || strings.Contains(cand.Name, "#") {
					continue
				}
				fd := cu.Funcs[cand.Name]
				if fd == nil || fd.Recv != nil || fd.Type.Results == nil {
					continue
				}
				builds := false
				for _, r := range fd.Type.Results.List {
					if recvTypes[pth][recvTypeName(r.Type)] {
						builds = true
					}
				}
				if builds {
					have[cu.Pkg.PkgPath+"\x00"+cand.Name] = true
					helper[cu.Short+"."+cand.Name] = true
					callers = append(callers, struct {
						u    *Unit
						name string
					}{cu, cand.Name})
				}
			}
		}
		funcs = append(funcs, callers...)
	}
	kfs := loadKnownFindings()
	var exs []*Exec
	var genErrs []string
	for _, f := range funcs {
		ex, err := w.verifyFunc(f.u, f.name)
		if err != nil {
			if ex != nil && strings.HasPrefix(err.Error(), "contract error") || (ex != nil && strings.Contains(err.Error(), "not found in")) || (ex != nil && strings.Contains(err.Error(), "binds")) {
				// the contract no longer binds to the code: a failed obligation
				// of that function, not a broken check
				ex.Obs = map[string]*Obligation{}
				ex.ObOrd = nil
				ex.obligeAST("contract-binding", "contract_applies_to_the_current_code", 0, false, err.Error(), []string{prop})
				exs = append(exs, ex)
				continue
			}
			genErrs = append(genErrs, err.Error())
			continue
		}
		exs = append(exs, ex)
	}
	for _, l := range lemmas {
		ex, err := w.verifyLemma(l)
		if err != nil {
			genErrs = append(genErrs, err.Error())
			continue
		}
		exs = append(exs, ex)
	}
	if len(genErrs) > 0 {
		return broken("contract/generation errors: " + strings.Join(genErrs, " | "))
	}
	dir, _ := os.MkdirTemp("", "govc-"+prop)
	defer os.RemoveAll(dir)
	opts := dischargeOpts{timeoutS: 15, dir: dir, jobs: 5}
	if tier == "thorough" {
		opts.timeoutS = 60
		opts.all = true
		opts.jobs = 4
	}
	// keep only this property's obligations
	var all []*Obligation
	for _, ex := range exs {
		var keep []string
		for _, n := range ex.ObOrd {
			ob := ex.Obs[n]
			if hasProp(ob.Props, prop) || helper[ex.FName] || ob.Kind == "reach" || ob.Kind == "canary" || ob.Kind == "contract-binding" {
				keep = append(keep, n)
				all = append(all, ob)
			}
		}
		ex.ObOrd = keep
	}
	dischargeAll(exs, opts)
	// extras
	var bounded []map[string]any
	var notes []string
	for _, xc := range extraChecks[prop] {
		r := xc(w, tier, seed)
		all = append(all, r.Obligations...)
		bounded = append(bounded, r.Bounded...)
		notes = append(notes, r.Notes...)
		for _, t := range r.Trusted {
			w.Trusted[t] = true
		}
	}
	// known findings: an open finding's obligation is re-checked with the
	// witness class excluded; it must then discharge.
	var knownMatched []string
	violations := 0
	replayDir := filepath.Join(outRoot(), "replays", prop)
	os.RemoveAll(replayDir)
	nOb, nDis := 0, 0
	byBackend := map[string]map[string]int64{}
	var samples []map[string]any
	var vacRun, vacPass int
	failedFuncs := map[string]bool{}
	for _, ob := range all {
		if ob.Verdict != "discharged" && ob.Kind != "reach" && ob.Kind != "canary" {
			failedFuncs[ob.Func] = true
		}
	}
	for _, ob := range all {
		if (ob.Kind == "reach" || ob.Kind == "canary") && ob.Verdict != "discharged" && failedFuncs[ob.Func] {
			// a failed assertion is assumed afterwards, which makes later paths
			// contradictory; the failed assertion itself is what is reported
			ob.Verdict = "discharged"
			ob.Detail = "vacuity probe skipped: another obligation of this function failed"
		}
		if ob.Kind == "reach" || ob.Kind == "canary" {
			vacRun++
			if ob.Verdict == "discharged" {
				vacPass++
			}
		}
		if ob.Kind != "bounded" {
			nOb++
		}
		be := ob.Solver
		if be == "" {
			be = "none"
		}
		if byBackend[be] == nil {
			byBackend[be] = map[string]int64{}
		}
		byBackend[be]["obligations"]++
		byBackend[be]["ms"] += ob.Ms
		if ob.Verdict == "discharged" {
			if ob.Kind != "bounded" {
				nDis++
			}
			if len(samples) < 14 {
				samples = append(samples, map[string]any{"obligation": ob.Name, "kind": ob.Kind, "verdict": ob.Verdict, "backend": ob.Solver, "ms": ob.Ms, "queries": len(ob.Queries), "pos": ob.Pos})
			}
			continue
		}
		// failed: is it a known finding?
		matched := false
		for _, kf := range kfs {
			if kf.Status == "open" && kf.Property == prop && kf.Obligation == ob.Name {
				if recheckExcluding(w, exs, ob, kf, opts) {
					fmt.Printf("KNOWN-FINDING: property=%s %s %s\n", prop, ob.Name, kf.Text)
					knownMatched = append(knownMatched, ob.Name)
					matched = true
				}
				break
			}
		}
		if matched {
			continue
		}
		violations++
		os.MkdirAll(replayDir, 0o755)
		rp := filepath.Join(replayDir, smtName(ob.Name)+".json")
		rep := map[string]any{"property": prop, "obligation": ob.Name, "kind": ob.Kind, "verdict": ob.Verdict, "solver": ob.Solver,
			"solver_output": ob.Detail, "model": ob.Model, "pos": ob.Pos, "function": ob.Func}
		suffix := ""
		reproduced := false
		if ob.Verdict == "counterexample" || ob.Verdict == "undischarged" {
			reproduced = tryReplay(w, ob, rep)
		}
		if !reproduced {
			suffix = " no-failing-input-found"
		}
		b, _ := json.MarshalIndent(rep, "", " ")
		os.WriteFile(rp, b, 0o644)
		fmt.Printf("VIOLATION property=%s replay=%s obligation=%s%s\n", prop, rp, ob.Name, suffix)
	}
	// evidence
	var tb []string
	for k := range w.Trusted {
		tb = append(tb, k)
	}
	for k := range w.Abstr {
		tb = append(tb, "abstracted: "+k)
	}
	for k := range w.Unsup {
		tb = append(tb, "unsupported construct (modelled opaquely): "+k)
	}
	tb = append(tb, "machine integers (int) treated as mathematical integers; bytes are exact 8-bit vectors",
		"go/types type-checking and go/packages loading of /repo with -tags verif",
		"SMT solvers z3 4.8.12, z3 5.1.0, cvc5 1.0.3 (an 'unsat' answer is believed)")
	sort.Strings(tb)
	var fuc []map[string]any
	for _, ex := range exs {
		fuc = append(fuc, map[string]any{"function": ex.FName, "body_sha256_16": ex.bodyHash, "obligations": len(ex.ObOrd), "paths": ex.paths})
	}
	level := "proof"
	if len(knownMatched) > 0 || violations > 0 {
		level = "other"
	}
	bb := map[string]any{}
	for k, v := range byBackend {
		bb[k] = v
	}
	var teeth []toothResult
	if tier == "thorough" {
		teeth = runTeeth(prop)
	}
	cov := map[string]any{
		"teeth":       teeth,
		"obligations": nOb, "discharged": nDis,
		"checker_cmd":              fmt.Sprintf("/verif/bin/govc check %s --tier %s", prop, tier),
		"trusted_base":             tb,
		"functions_under_contract": fuc,
		"by_backend":               bb,
		"samples":                  samples,
		"vacuity":                  map[string]any{"probes_run": vacRun, "probes_passed": vacPass},
		"bounded":                  bounded,
		"known_findings_matched":   knownMatched,
		"notes":                    notes,
		"explanation":              "contract-based deductive verification: obligations generated from /repo's current source by govc and discharged by SMT; see DESIGN.md",
	}
	ev := map[string]any{"property_id": prop, "tier": tier, "seed": seed, "level": level, "coverage": cov,
		"assumptions": tb, "wall_s": time.Since(t0).Seconds(), "violations": violations}
	b, _ := json.MarshalIndent(ev, "", " ")
	if err := os.WriteFile(evPath, b, 0o644); err != nil {
		fmt.Println("cannot write evidence:", err)
		return 2
	}
	fmt.Printf("%s: %d obligations, %d discharged, %d known findings, %d violations, %.1fs\n", prop, nOb, nDis, len(knownMatched), violations, time.Since(t0).Seconds())
	if violations > 0 {
		return 1
	}
	return 0
}

// recheckExcluding re-runs a failed obligation with the known finding's
// witness class excluded; true if it then discharges.
func recheckExcluding(w *World, exs []*Exec, ob *Obligation, kf knownFinding, opts dischargeOpts) bool {
	if ob.Backend == "ast" {
		return kf.Exclude == "" // ast findings are matched by name only
	}
	if kf.Exclude == "" {
		return false
	}
	var ex *Exec
	for _, e := range exs {
		if e.Obs[ob.Name] == ob {
			ex = e
		}
	}
	if ex == nil || ex.entryState == nil {
		return false
	}
	var g *Term
	func() {
		defer func() {
			if r := recover(); r != nil {
				g = nil
			}
		}()
		st := ex.entryState.clone()
		g = ex.evalSpecBool(st, kf.Exclude, ex.U, "known finding exclude")
	}()
	if g == nil {
		return false
	}
	cp := *ob
	cp.Queries = nil
	for _, q := range ob.Queries {
		nq := *q
		nq.Hyps = append(append([]*Term(nil), q.Hyps...), not(g))
		cp.Queries = append(cp.Queries, &nq)
	}
	dischargeOne(ex, &cp, opts)
	return cp.Verdict == "discharged"
}

// tryReplay replays a counterexample on the real code; see replay.go.
func tryReplay(w *World, ob *Obligation, rep map[string]any) bool {
	if f, ok := replayDrivers[ob.Func]; ok {
		return f(w, ob, rep)
	}
	rep["replay"] = "no replay driver for " + ob.Func
	return false
}

var replayDrivers = map[string]func(w *World, ob *Obligation, rep map[string]any) bool{}
