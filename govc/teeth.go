package main

// teeth.go - thorough tier only: the check is run against copies of the tree
// under check with each recorded seeded change for this property applied
// (scratch copies under a temporary directory, removed afterwards).  A seeded
// change that is no longer reported means the check has lost strength; that
// is printed and recorded in the evidence, it is not a property violation.

import (
	"fmt"
	"os"
	"os/exec"
	"path/filepath"
	"sort"
	"strings"
	"sync"
)

type toothResult struct {
	Seed       string `json:"seeded_change"`
	Applied    bool   `json:"applied"`
	Reported   bool   `json:"reported"`
	Violations int    `json:"violation_lines"`
	Note       string `json:"note,omitempty"`
}

func runTeeth(prop string) []toothResult {
	if os.Getenv("GOVC_REPO") != "" || os.Getenv("GOVC_NOTEETH") != "" {
		return nil
	}
	type item struct{ name, patch string }
	var items []item
	dirs, _ := filepath.Glob(filepath.Join(verifRoot, "seeded", prop+"*"))
	sort.Strings(dirs)
	for _, d := range dirs {
		base := filepath.Base(d)
		if base != prop && !strings.HasPrefix(base, prop+"-") {
			continue
		}
		patch := filepath.Join(d, "patch.diff")
		if _, err := os.Stat(patch); err != nil {
			continue
		}
		items = append(items, item{base, patch})
	}
	// my own breaking changes (selftest/break/*.diff, first line "# props: Cxx ...")
	brk, _ := filepath.Glob(filepath.Join(verifRoot, "selftest", "break", "*.diff"))
	sort.Strings(brk)
	for _, f := range brk {
		b, err := os.ReadFile(f)
		if err != nil {
			continue
		}
		first := firstLines(string(b), 1)
		if !strings.HasPrefix(first, "# props:") {
			continue
		}
		for _, p := range strings.Fields(strings.TrimPrefix(first, "# props:")) {
			if p == prop {
				items = append(items, item{"break/" + strings.TrimSuffix(filepath.Base(f), ".diff"), f})
			}
		}
	}
	out := make([]toothResult, len(items))
	workers := 3
	if s := os.Getenv("GOVC_TEETH_JOBS"); s != "" {
		fmt.Sscan(s, &workers)
	}
	if workers < 1 {
		workers = 1
	}
	idx := make(chan int)
	var wg sync.WaitGroup
	for w := 0; w < workers; w++ {
		wg.Add(1)
		go func() {
			defer wg.Done()
			for k := range idx {
				out[k] = runTooth(prop, items[k].name, items[k].patch)
			}
		}()
	}
	for k := range items {
		idx <- k
	}
	close(idx)
	wg.Wait()
	for _, tr := range out {
		if tr.Applied && !tr.Reported {
			fmt.Printf("TEETH-LOST property=%s: seeded change %s is no longer reported by this check\n", prop, tr.Seed)
		} else if tr.Applied {
			fmt.Printf("teeth: seeded change %s reported (%d obligations)\n", tr.Seed, tr.Violations)
		}
	}
	return out
}

func runTooth(prop, base, patch string) toothResult {
	tr := toothResult{Seed: base}
	tmp, err := os.MkdirTemp("", "govc-teeth")
	if err != nil {
		tr.Note = err.Error()
		return tr
	}
	defer os.RemoveAll(tmp)
	work := filepath.Join(tmp, "tree")
	// copy the tree under check as it is (working tree, not HEAD)
	cp := exec.Command("rsync", "-a", "--exclude", ".git", repoRoot+"/", work+"/")
	if b, err := cp.CombinedOutput(); err != nil {
		tr.Note = "copy failed: " + string(b)
		return tr
	}
	ap := exec.Command("git", "apply", "--unsafe-paths", "--directory="+work, patch)
	ap.Dir = tmp
	if b, err := ap.CombinedOutput(); err != nil {
		// try plain patch
		pp := exec.Command("patch", "-p1", "-s", "-i", patch)
		pp.Dir = work
		if b2, err2 := pp.CombinedOutput(); err2 != nil {
			tr.Note = "seeded change does not apply to the tree under check: " + firstLines(string(b)+string(b2), 2)
			return tr
		}
	}
	tr.Applied = true
	outDir := filepath.Join(tmp, "out")
	c := exec.Command(os.Args[0], "check", prop, "--tier", "quick")
	c.Env = append(os.Environ(), "GOVC_REPO="+work, "GOVC_OUT="+outDir, "GOVC_NOTEETH=1")
	b, _ := c.CombinedOutput()
	for _, l := range strings.Split(string(b), "\n") {
		if strings.HasPrefix(l, "VIOLATION") {
			tr.Violations++
		}
	}
	tr.Reported = tr.Violations > 0
	return tr
}
