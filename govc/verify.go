package main

// verify.go - loading, per-function verification driver, discharge.

import (
	"crypto/sha256"
	"fmt"
	"go/ast"
	"go/token"
	"go/types"
	"os"
	"path/filepath"
	"sort"
	"strings"
	"sync"
	"time"

	"golang.org/x/tools/go/packages"
)

var repoRoot = envOr("GOVC_REPO", "/repo")
const modPath = "github.com/magisterquis/curlrevshell"

var srcCache = map[string][]byte{}

func loadWorld(pkgDirs []string) (*World, error) {
	cfg := &packages.Config{
		Mode:       packages.NeedName | packages.NeedFiles | packages.NeedSyntax | packages.NeedTypes | packages.NeedTypesInfo | packages.NeedImports,
		Dir:        repoRoot,
		BuildFlags: []string{"-tags=verif"},
		Env:        append(os.Environ(), "GOFLAGS=-mod=mod", "GOPROXY=off", "GOSUMDB=off", "GOTOOLCHAIN=local"),
	}
	var pats []string
	for _, d := range pkgDirs {
		pats = append(pats, "./"+strings.TrimPrefix(d, "./"))
	}
	pkgs, err := packages.Load(cfg, pats...)
	if err != nil {
		return nil, err
	}
	w := &World{Units: map[string]*Unit{}, LibFuncs: map[string]*FuncSpec{}, SpecFns: map[string]*SpecFunc{}, Lemmas: map[string]*Lemma{},
		Trusted: map[string]bool{}, Abstr: map[string]bool{}, Unsup: map[string]bool{}, LockOrder: map[[2]string]bool{}}
	for _, p := range pkgs {
		if len(p.Errors) > 0 {
			return nil, fmt.Errorf("package %s: %v", p.PkgPath, p.Errors[0])
		}
		w.Fset = p.Fset
		short := p.Types.Name()
		if short == "main" && p.PkgPath != modPath {
			short = "main." + filepath.Base(p.PkgPath)
		}
		u := &Unit{Pkg: p, Short: short, Funcs: map[string]*ast.FuncDecl{}, FSpecs: map[string]*FuncSpec{}, TSpecs: map[string]*TypeSpec{}}
		for _, f := range p.Syntax {
			for _, d := range f.Decls {
				fd, ok := d.(*ast.FuncDecl)
				if !ok {
					continue
				}
				name := fd.Name.Name
				if fd.Recv != nil && len(fd.Recv.List) > 0 {
					name = recvTypeName(fd.Recv.List[0].Type) + "." + name
				}
				u.Funcs[name] = fd
			}
		}
		// contract file
		if len(p.GoFiles) > 0 {
			dir := filepath.Dir(p.GoFiles[0])
			cpath := filepath.Join(dir, "zz_contracts_verif.go")
			if _, err := os.Stat(cpath); err == nil {
				cf, err := parseContractFile(cpath, true)
				if err != nil {
					return nil, err
				}
				u.Specs = cf
				for _, fs := range cf.Funcs {
					fs.Pkg = p.PkgPath
					if prev := u.FSpecs[fs.Name]; prev != nil {
						return nil, fmt.Errorf("%s:%d: second contract for %s (first at line %d)", cpath, fs.Line, fs.Name, prev.Line)
					}
					u.FSpecs[fs.Name] = fs
				}
				for _, ts := range cf.Types {
					u.TSpecs[ts.Name] = ts
				}
				for _, sf := range cf.Specs {
					w.SpecFns[sf.Name] = sf
				}
				for _, l := range cf.Lemmas {
					w.Lemmas[l.Name] = l
				}
				for _, lo := range cf.LockOrder {
					w.LockOrder[lo] = true
				}
			}
		}
		w.Units[p.PkgPath] = u
	}
	// library specs
	lib := "/verif/contracts/stdlib.spec"
	if _, err := os.Stat(lib); err == nil {
		cf, err := parseContractFile(lib, false)
		if err != nil {
			return nil, err
		}
		w.Lib = cf
		for _, fs := range cf.Funcs {
			fs.Trusted = true
			w.LibFuncs[fs.Name] = fs
		}
		for _, sf := range cf.Specs {
			w.SpecFns[sf.Name] = sf
		}
		for _, l := range cf.Lemmas {
			w.Lemmas[l.Name] = l
		}
	}
	return w, nil
}

func recvTypeName(e ast.Expr) string {
	switch t := e.(type) {
	case *ast.StarExpr:
		return recvTypeName(t.X)
	case *ast.Ident:
		return t.Name
	case *ast.IndexExpr:
		return recvTypeName(t.X)
	}
	return "?"
}

func (w *World) unitByShort(short string) *Unit {
	for _, u := range w.Units {
		if u.Short == short {
			return u
		}
	}
	return nil
}

func newExec(w *World, u *Unit, fname string, fs *FuncSpec) *Exec {
	ex := &Exec{W: w, U: u, D: newDecls(), Info: u.Pkg.TypesInfo, FSpec: fs, FName: u.Short + "." + fname,
		Obs: map[string]*Obligation{}, fieldIDs: map[string]int{}, strLits: map[string]*Term{}, maxPaths: 20000,
		loopCount: []int{0}, specFnInfos: map[string]*specFnInfo{}, heapSorts: map[string]string{}, safety: true,
		variadicElems: map[string][]*Val{}, siteOrds: map[string]map[token.Pos]int{}, splitInfo: map[string]*splitInfo{},
		unlockOrd: map[string]int{}, unlockSites: map[token.Pos]string{}, constructing: map[string]bool{}, globalWrites: map[string]bool{},
		anchorHit: map[*Hook]bool{}, loopHit: map[string]bool{}, ghostConst: map[string]bool{}, lemmasUsed: map[string]bool{}}
	if fs != nil {
		ex.Props = fs.Props
		if fs.NoSafety {
			ex.safety = false
		}
	}
	ex.specUnit = u
	return ex
}

// findBody locates the body to verify: a declared function or its k-th closure.
func (u *Unit) findBody(name string) (ft *ast.FuncType, body *ast.BlockStmt, recv *ast.FieldList, lit *ast.FuncLit, pos token.Pos) {
	base, k := name, 0
	if i := strings.Index(name, "#"); i >= 0 {
		base = name[:i]
		fmt.Sscanf(name[i+1:], "%d", &k)
	}
	fd := u.Funcs[base]
	if fd == nil || fd.Body == nil {
		return nil, nil, nil, nil, token.NoPos
	}
	if k == 0 {
		return fd.Type, fd.Body, fd.Recv, nil, fd.Pos()
	}
	n := 0
	var found *ast.FuncLit
	ast.Inspect(fd.Body, func(x ast.Node) bool {
		if found != nil {
			return false
		}
		if fl, ok := x.(*ast.FuncLit); ok {
			n++
			if n == k {
				found = fl
				return false
			}
		}
		return true
	})
	if found == nil {
		return nil, nil, nil, nil, token.NoPos
	}
	return found.Type, found.Body, nil, found, found.Pos()
}

func (ex *Exec) nodeSrc(n ast.Node) string {
	p0, p1 := ex.W.Fset.Position(n.Pos()), ex.W.Fset.Position(n.End())
	src, ok := srcCache[p0.Filename]
	if !ok {
		src, _ = os.ReadFile(p0.Filename)
		srcCache[p0.Filename] = src
	}
	if p0.Offset < 0 || p1.Offset > len(src) || p0.Offset > p1.Offset {
		return ""
	}
	return string(src[p0.Offset:p1.Offset])
}

// nodeText: normalised text of the source line containing pos.
func (ex *Exec) nodeText(pos token.Pos) string {
	p := ex.W.Fset.Position(pos)
	src, ok := srcCache[p.Filename]
	if !ok {
		src, _ = os.ReadFile(p.Filename)
		srcCache[p.Filename] = src
	}
	lines := strings.Split(string(src), "\n")
	if p.Line-1 < 0 || p.Line-1 >= len(lines) {
		return "?"
	}
	t := normSpace(lines[p.Line-1])
	if len(t) > 60 {
		t = t[:60]
	}
	return t
}

// verifyFunc generates all obligations of one function under contract.
func (w *World) verifyFunc(u *Unit, name string) (ex *Exec, err error) {
	fs := u.FSpecs[name]
	// renamed locals: read the contract with the names the code uses now
	if rec := localsFor(u, name); rec != nil {
		base := name
		if i := strings.Index(base, "#"); i >= 0 {
			base = base[:i]
		}
		if fd := u.Funcs[base]; fd != nil {
			if m := renameMap(rec, definedNames(u, fd)); m != nil {
				fs = renamedSpec(fs, m)
				w.Abstr[fmt.Sprintf("contract of %s.%s read with renamed identifiers %v (same number and order of definitions as recorded)", u.Short, name, m)] = true
			}
		}
	}
	ex = newExec(w, u, name, fs)
	defer func() {
		if r := recover(); r != nil {
			if se, ok := r.(specError); ok {
				err = fmt.Errorf("contract error in %s: %s", ex.FName, se.msg)
				return
			}
			panic(r)
		}
	}()
	ft, body, recvList, lit, pos := u.findBody(name)
	if body == nil {
		return ex, fmt.Errorf("function %s not found in %s", name, u.Pkg.PkgPath)
	}
	ex.computeBoxed(u, name)
	ex.bodyHash = fmt.Sprintf("%x", sha256.Sum256([]byte(ex.nodeSrc(body))))[:16]
	st := ex.newBareState()
	var sig *types.Signature
	if lit != nil {
		sig = ex.typeOf(lit).(*types.Signature)
	} else {
		base := name
		fd := u.Funcs[base]
		sig = ex.Info.Defs[fd.Name].Type().(*types.Signature)
	}
	st.frames = []*Frame{{sig: sig}}
	ex.entryAlloc = ex.alloc(st)
	st.assume(gt(ex.alloc(st), intLit(0)))
	// parameters
	var entry []*Val
	var pnames []string
	addParam := func(id *ast.Ident, t types.Type) {
		pname := "_"
		if id != nil {
			pname = id.Name
		}
		v := ex.freshVal(st, "in."+pname, t)
		entry = append(entry, v)
		pnames = append(pnames, pname)
		if id != nil && id.Name != "_" {
			if o := ex.Info.Defs[id]; o != nil {
				st.vars[o] = v
				st.names[id.Name] = o
			}
		}
	}
	if recvList != nil {
		for _, f := range recvList.List {
			if len(f.Names) == 0 {
				addParam(nil, ex.typeOf(f.Type))
			}
			for _, n := range f.Names {
				addParam(n, ex.Info.Defs[n].Type())
			}
		}
	}
	if ft.Params != nil {
		for _, f := range ft.Params.List {
			if len(f.Names) == 0 {
				addParam(nil, ex.typeOf(f.Type))
			}
			for _, n := range f.Names {
				if o := ex.Info.Defs[n]; o != nil {
					addParam(n, o.Type())
				} else {
					addParam(nil, ex.typeOf(f.Type))
				}
			}
		}
	}
	if ft.Results != nil {
		fr := st.frame()
		for _, f := range ft.Results.List {
			for _, n := range f.Names {
				if o := ex.Info.Defs[n]; o != nil {
					st.vars[o] = ex.zero(o.Type())
					st.names[n.Name] = o
					fr.results = append(fr.results, o)
				}
			}
		}
	}
	// captured variables of a closure unit
	if lit != nil {
		ast.Inspect(lit.Body, func(x ast.Node) bool {
			id, ok := x.(*ast.Ident)
			if !ok {
				return true
			}
			o, ok := ex.Info.Uses[id].(*types.Var)
			if !ok || o.IsField() || o.Pkg() == nil || o.Parent() == o.Pkg().Scope() {
				return true
			}
			if o.Pos() >= lit.Pos() && o.Pos() < lit.End() {
				return true
			}
			if _, ok := st.vars[o]; !ok {
				var v *Val
				if _, isStruct := o.Type().Underlying().(*types.Struct); isStruct {
					ex.boxed[o] = true
					v = ex.freshVal(st, "cap."+o.Name(), types.NewPointer(o.Type()))
					v.Boxed = true
					st.assume(gt(v.Term, intLit(0)))
				} else {
					v = ex.freshVal(st, "cap."+o.Name(), o.Type())
				}
				st.vars[o] = v
				st.names[o.Name()] = o
				if _, clash := st.bound[o.Name()]; !clash {
					st.bound[o.Name()] = v
				}
				ex.modelVars = append(ex.modelVars, v.Term.Op)
				if isRefLike(o.Type()) && (fs == nil || !fs.Nilable[o.Name()]) {
					st.assume(gt(v.Term, intLit(0)))
				}
			}
			return true
		})
	}
	for _, v := range entry {
		if v.Term != nil {
			ex.modelVars = append(ex.modelVars, v.Term.Op)
		}
	}
	for i, v := range entry {
		if v.Term != nil && isByteSlice(v.T) {
			ex.modelSlices = append(ex.modelSlices, modelSlice{Name: pnames[i], S: v.Term, Mem: ex.mem(st, types.Typ[types.Byte])})
		}
	}
	// contract binding
	if fs != nil {
		if len(fs.Params) != len(entry) {
			return ex, fmt.Errorf("contract %s binds %d parameters, function has %d (%v)", fs.Name, len(fs.Params), len(entry), pnames)
		}
		for i, n := range fs.Params {
			st.bound[n] = entry[i]
		}
	}
	// default: reference-like parameters are non-nil
	for i, v := range entry {
		if v.Term != nil && v.Term.S == SInt && isRefLike(v.T) {
			n := pnames[i]
			if fs != nil {
				n = fs.Params[i]
			}
			if fs == nil || !fs.Nilable[n] {
				st.assume(gt(v.Term, intLit(0)))
			}
		}
	}
	// ghosts
	if fs != nil {
		for _, g := range fs.Ghosts {
			gt := ex.parseSpecType(g.Type, u)
			var v *Val
			if g.Init != "" {
				v = ex.evalSpec(st, g.Init, u, "ghost "+g.Name)
				v = ex.coerce(st, ex.materialize(v, gt), gt)
				if v.Term != nil && v.Term.S == SBool && hasQuantifier(v.Term) {
					// a quantified hypothesis is given a name: the ghost is a
					// Boolean constant that implies the formula.  Sound for uses
					// of the ghost as an antecedent (imp(H, ...)): a model in
					// which the formula holds may always choose H true; a
					// positive use of H is simply not provable.
					nm := ex.freshVal(st, "ghost."+g.Name, gt)
					st.assume(implies(nm.Term, v.Term))
					ex.ghostConst[g.Name] = true
					v = nm
				}
			} else {
				v = ex.freshVal(st, "ghost."+g.Name, gt)
				ex.ghostConst[g.Name] = true
				ex.modelVars = append(ex.modelVars, v.Term.Op)
			}
			st.ghost[g.Name] = v
		}
		// lemmas
		for _, ln := range fs.Uses {
			ex.useLemma(st, ln)
		}
	}
	if fs != nil && fs.Terminates {
		ex.terminationCheck(fs, body, name)
	}
	if fs != nil && len(fs.CalledOnlyBy) > 0 && lit == nil {
		ex.calledOnlyByCheck(fs, u, name, body.Pos())
	}
	if fs != nil && lit == nil && recvList != nil {
		ex.pointerReceiverCheck(u, name, recvList, body.Pos())
	}
	// unlock site names
	ex.unitBody = body
	ex.nameUnlockSites(body)
	ex.indexLoops(body)
	ex.indexCallSites(body)
	// requires
	if fs != nil {
		for _, c := range fs.Requires {
			g := ex.evalSpecBool(st, c.Expr, u, fmt.Sprintf("%s:%d requires %s", c.File, c.Line, c.Label))
			st.assume(g)
			if c.Kind == "assumes" {
				w.Trusted[fmt.Sprintf("environment assumption at entry of %s (%s): %s", ex.FName, c.Label, c.Expr)] = true
			}
		}
	}
	// locks the caller holds
	if fs != nil {
		for _, h := range fs.Holds {
			st.held[h] = &lockHeld{snap: st.clone()}
			w.Trusted["`holds`: "+ex.FName+" is taken to run with "+h+" held (checked at its call sites inside the program; for a lock of another library - a callback that library invokes under its own lock - it is a statement about that library, read off its source)"] = true
		}
	}
	st.old = st.clone()
	st.old.old = nil
	ex.entryState = st.clone()
	ex.reachProbe(st, "entry", pos)
	// execute
	flows := ex.block(st, body.List)
	nret := 0
	for _, f := range flows {
		if f.kind != flowNormal && f.kind != flowReturn {
			continue
		}
		e := f.st
		ex.runHooks(e, "exit", "", nil, nil, pos)
		ex.runDefers(e)
		if e.dead {
			continue
		}
		nret++
		rets := f.rets
		if f.kind == flowNormal || len(rets) == 0 {
			rets = nil
			for _, o := range e.frame().results {
				rets = append(rets, e.vars[o])
			}
		}
		ex.atExit(e, fs, u, rets, sig, pos)
	}
	if nret == 0 {
		ex.oblige(st, "terminates-normally", "some-path", pos, tFalse, nil)
	}
	// flows clauses: every use of a parameter is a direct argument of a listed callee
	if fs != nil {
		for pname, callees := range fs.Flows {
			ex.checkFlows(body, pname, callees, pos)
		}
		if fs.AssignsNone {
			ex.checkAssignsNone(body, pos)
		}
	}
	// vacuity: unmatched anchors / loops in the contract
	if fs != nil {
		for _, h := range fs.Hooks {
			if (h.Kind == "after" || h.Kind == "before") && !ex.anchorHit[h] {
				ex.obligeAST("contract-binding", fmt.Sprintf("%s %q", h.Kind, h.Target), pos, false,
					fmt.Sprintf("%s:%d anchor text not found in body", h.File, h.Line), h.Props)
			}
		}
		var lp []string
		for p := range fs.Loops {
			lp = append(lp, p)
		}
		sort.Strings(lp)
		for _, p := range lp {
			if !ex.loopHit[p] {
				ex.obligeAST("contract-binding", "loop "+p, pos, false, "loop path not found in body", nil)
			}
		}
	}
	return ex, nil
}

// atExit asserts postconditions on one exit path and adds the canary.
func (ex *Exec) atExit(e *State, fs *FuncSpec, u *Unit, rets []*Val, sig *types.Signature, pos token.Pos) {
	for key := range e.held {
		callerHolds := false
		if fs != nil {
			for _, h := range fs.Holds {
				if h == key {
					callerHolds = true
				}
			}
		}
		if !callerHolds {
			ex.oblige(e, "lock-released", key, pos, tFalse, nil)
		}
	}
	// a struct built by a literal in this function and returned from it must
	// have the fields its type contract declares nonnil
	for i, r := range rets {
		if r == nil || r.Term == nil || i >= sig.Results().Len() {
			continue
		}
		base, isPtr := derefType(sig.Results().At(i).Type())
		if !isPtr {
			continue
		}
		ts := ex.typeSpecFor(base)
		if ts == nil || len(ts.NonNil) == 0 {
			continue
		}
		stT, ok := base.Underlying().(*types.Struct)
		if !ok {
			continue
		}
		lit := ex.readField(e, r.Term, base, "$lit", types.Typ[types.Bool])
		for j := 0; j < stT.NumFields(); j++ {
			f := stT.Field(j)
			if !ts.NonNil[f.Name()] || !isRefLike(f.Type()) {
				continue
			}
			fv := ex.readField(e, r.Term, base, f.Name(), f.Type())
			goal := implies(and(gt(r.Term, intLit(0)), ge(r.Term, ex.entryAlloc), lit), gt(fv, intLit(0)))
			ex.oblige(e, "nonnil-init", shortType(base)+"."+f.Name(), pos, goal, nil)
		}
	}
	if fs != nil {
		// bind results; parameters denote entry values
		for i, n := range fs.Results {
			if i < len(rets) && rets[i] != nil {
				r := rets[i]
				if r.Term == nil {
					r = ex.coerce(e, r, sig.Results().At(i).Type())
					if r.Term == nil {
						r = &Val{T: r.T, Term: ex.funcRef(e, r), Lit: r.Lit, Fn: r.Fn}
					}
				}
				e.bound[n] = r
			}
		}
		saveNL := ex.specNoLocals
		ex.specNoLocals = true
		for i, c := range fs.Ensures {
			label := labelOr(c.Label, fmt.Sprint(i+1))
			g := ex.evalSpecBool(e, c.Expr, u, fmt.Sprintf("%s:%d ensures %s", c.File, c.Line, label))
			ex.oblige(e, "post", label, pos, g, c.Props)
		}
		ex.specNoLocals = saveNL
	}
	if fs != nil && !frameChecked(fs) {
		ex.frameObligations(e, fs, pos)
	}
	// canary: must not be provable
	full := ex.FName + "/canary"
	ob := ex.Obs[full]
	if ob == nil {
		ob = &Obligation{Name: full, Kind: "canary", Func: ex.FName, Props: ex.Props, Pos: ex.posStr(pos), Backend: "smt", IsCanary: true}
		ex.Obs[full] = ob
		ex.ObOrd = append(ex.ObOrd, full)
	}
	ob.Queries = append(ob.Queries, &Query{Hyps: append([]*Term(nil), e.pc...), Goal: tFalse, Decls: ex.D, Path: strings.Join(e.path, ">")})
}

func (ex *Exec) nameUnlockSites(body *ast.BlockStmt) {
	n := 0
	ast.Inspect(body, func(x ast.Node) bool {
		switch s := x.(type) {
		case *ast.DeferStmt:
			if sel, ok := s.Call.Fun.(*ast.SelectorExpr); ok && (sel.Sel.Name == "Unlock" || sel.Sel.Name == "RUnlock") {
				ex.unlockSites[s.Call.Pos()] = "defer"
			}
		case *ast.CallExpr:
			if sel, ok := s.Fun.(*ast.SelectorExpr); ok && (sel.Sel.Name == "Unlock" || sel.Sel.Name == "RUnlock") {
				if _, ok := ex.unlockSites[s.Pos()]; !ok {
					n++
					ex.unlockSites[s.Pos()] = fmt.Sprint(n)
				}
			}
		}
		return true
	})
}

// indexCallSites ranks the call sites of each callee in source order.
func (ex *Exec) indexCallSites(body *ast.BlockStmt) {
	ex.callSites = map[string]map[token.Pos]int{}
	ast.Inspect(body, func(x ast.Node) bool {
		if c, ok := x.(*ast.CallExpr); ok {
			if fn := ex.calleeOf(c); fn != nil {
				k := calleeKey(fn)
				if ex.callSites[k] == nil {
					ex.callSites[k] = map[token.Pos]int{}
				}
				ex.callSites[k][c.Pos()] = len(ex.callSites[k]) + 1
			}
		}
		return true
	})
}

// useLemma adds a proved lemma (universally quantified) as a hypothesis.
func (ex *Exec) useLemma(st *State, name string) {
	l := ex.W.Lemmas[name]
	if l == nil {
		ex.specFail("unknown lemma %q", name)
	}
	st.assume(ex.lemmaFormula(l))
	ex.lemmasUsed[name] = true
	if l.Axiom {
		ex.W.Trusted["axiom (unproved): "+l.Name+": "+l.Body] = true
	}
}

// lemmaFormula builds forall params (and heaps). body.
func (ex *Exec) lemmaFormula(l *Lemma) *Term {
	u := ex.unitForFile(l.File)
	ls := ex.newBareState()
	ls.specDef = map[string]*Term{}
	var bound []*Term
	for _, p := range l.Params {
		pt := ex.parseSpecType(p.Type, u)
		ex.nfresh++
		leaf := mk(fmt.Sprintf("%s?%d", p.Name, ex.nfresh), ex.sortOf(pt))
		bound = append(bound, leaf)
		ls.bound[p.Name] = &Val{T: pt, Term: leaf}
	}
	saveNL := ex.specNoLocals
	ex.specNoLocals = true
	body := ex.evalSpecBool(ls, l.Body, u, fmt.Sprintf("%s:%d lemma %s", l.File, l.Line, l.Name))
	ex.specNoLocals = saveNL
	if len(ls.pc) > 0 {
		body = implies(and(ls.pc...), body)
	}
	var hn []string
	for k := range ls.specDef {
		hn = append(hn, k)
	}
	sort.Strings(hn)
	for _, k := range hn {
		bound = append(bound, ls.specDef[k])
	}
	if len(bound) == 0 {
		return body
	}
	return forall(bound, body)
}

// verifyLemma generates the obligation for one lemma.
func (w *World) verifyLemma(l *Lemma) (ex *Exec, err error) {
	u := (&Exec{W: w}).unitForFileW(l.File)
	ex = newExec(w, u, "lemma."+l.Name, nil)
	ex.Props = l.Props
	defer func() {
		if r := recover(); r != nil {
			if se, ok := r.(specError); ok {
				err = fmt.Errorf("contract error in lemma %s: %s", l.Name, se.msg)
				return
			}
			panic(r)
		}
	}()
	if l.Axiom {
		return ex, nil
	}
	st := ex.newBareState()
	for _, un := range l.Using {
		ex.useLemma(st, un)
	}
	for _, p := range l.Params {
		pt := ex.parseSpecType(p.Type, u)
		v := &Val{T: pt, Term: ex.fresh("lem."+p.Name, ex.sortOf(pt))}
		st.bound[p.Name] = v
		ex.modelVars = append(ex.modelVars, v.Term.Op)
	}
	saveNL := ex.specNoLocals
	ex.specNoLocals = true
	g := ex.evalSpecBool(st, l.Body, u, fmt.Sprintf("%s:%d lemma %s", l.File, l.Line, l.Name))
	ex.specNoLocals = saveNL
	ex.oblige(st, "lemma", "", token.NoPos, g, l.Props)
	return ex, nil
}

func (ex *Exec) unitForFileW(file string) *Unit {
	for _, u := range ex.W.Units {
		if u.Specs != nil && u.Specs.Path == file {
			return u
		}
	}
	for _, u := range ex.W.Units {
		return u
	}
	return nil
}

// ---------------------------------------------------------------------
// discharge

type dischargeOpts struct {
	timeoutS int
	all      bool
	dir      string
	jobs     int
}

func (ex *Exec) globalAxioms() []*Term {
	var out []*Term
	out = append(out, ex.stringAxioms()...)
	out = append(out, ex.sliceAxioms()...)
	out = append(out, ex.errorAxioms()...)
	return out
}

func dischargeAll(exs []*Exec, opts dischargeOpts) {
	type job struct {
		ex *Exec
		ob *Obligation
	}
	var jobs []job
	for _, ex := range exs {
		// make every lazily declared symbol exist before the parallel phase
		ex.globalAxioms()
		for _, n := range ex.ObOrd {
			jobs = append(jobs, job{ex, ex.Obs[n]})
		}
	}
	ch := make(chan job)
	var wg sync.WaitGroup
	for i := 0; i < opts.jobs; i++ {
		wg.Add(1)
		go func() {
			defer wg.Done()
			for j := range ch {
				dischargeOne(j.ex, j.ob, opts)
			}
		}()
	}
	for _, j := range jobs {
		ch <- j
	}
	close(ch)
	wg.Wait()
}

func dischargeOne(ex *Exec, ob *Obligation, opts dischargeOpts) {
	t0 := time.Now()
	defer func() { ob.Ms = time.Since(t0).Milliseconds() }()
	if ob.Backend == "ast" {
		ob.Solver = "ast-check"
		if ob.ASTOK {
			ob.Verdict = "discharged"
		} else {
			ob.Verdict = "undischarged"
			ob.Detail = ob.ASTMsg
		}
		return
	}
	ax := ex.globalAxioms()
	solversUsed := map[string]bool{}
	if ob.IsReach || ob.IsCanary {
		// satisfiable on at least one path
		anySat := false
		var detail []string
		for i, q := range ob.Queries {
			hyps := append(append([]*Term(nil), ax...), q.Hyps...)
			script := q.Decls.query(hyps, nil, nil)
			best, _ := raceSolvers(opts.dir, fmt.Sprintf("%s.%d", ob.Name, i), script, 1, false)
			solversUsed[best.Solver] = true
			if best.Verdict == "sat" || best.Verdict == "unknown" || best.Verdict == "timeout" {
				// quantified hypotheses often give unknown: that is not a proof of false, so not vacuous
				anySat = true
				ob.Solver = best.Solver
				break
			}
			detail = append(detail, fmt.Sprintf("path %s: hypotheses unsatisfiable", q.Path))
		}
		if anySat {
			ob.Verdict = "discharged"
		} else {
			ob.Verdict = "undischarged"
			ob.Detail = "vacuity: " + strings.Join(detail, "; ")
		}
		return
	}
	ob.Verdict = "discharged"
	for i, q := range ob.Queries {
		if isTrue(q.Goal) {
			if ob.Solver == "" {
				ob.Solver = "trivial"
			}
			continue
		}
		hyps := append(append([]*Term(nil), ax...), q.Hyps...)
		script := q.Decls.query(hyps, q.Goal, q.Vars)
		if len(script) > 1500000 {
			ob.Verdict = "undischarged"
			ob.Detail = fmt.Sprintf("VC too large (%d bytes) on path %s", len(script), q.Path)
			return
		}
		// strategy 0: the contract names the facts this step follows from
		if len(q.Only) > 0 {
			want := map[string]bool{}
			for _, l := range q.Only {
				want[l] = true
			}
			var sel []*Term
			for _, h := range hyps {
				if !hasQuantifier(h) {
					sel = append(sel, h)
					continue
				}
				// (facts merged from a branch are wrapped as guard => fact)
				core := h
				for core.Op == "=>" && len(core.Args) == 2 {
					core = core.Args[1]
				}
				if tag, ok := ex.hypTags[core]; ok && want[tag] {
					sel = append(sel, h)
				} else if tag, ok := ex.assertTags[core]; ok && want[tag] {
					sel = append(sel, h)
				}
			}
			// global axioms (definitions) are in ax, which hyps starts with: keep them
			for _, a := range ax {
				if hasQuantifier(a) {
					sel = append(sel, a)
				}
			}
			script0 := q.Decls.query(sel, q.Goal, q.Vars)
			b0, e0 := raceSolvers(opts.dir, fmt.Sprintf("%s.%d.from", ob.Name, i), script0, opts.timeoutS, opts.all)
			if b0.Verdict == "unsat" {
				solversUsed[b0.Solver+"+from"] = true
				ob.Solver = b0.Solver + "+from"
				_ = e0
				continue
			}
		}
		// strategy 1: everything, short timeout; strategy 2: quantified
		// hypotheses that mention specification functions absent from the goal
		// are left out (dropping hypotheses is always sound); strategy 3:
		// everything, full timeout.
		short := 2
		if opts.timeoutS < short {
			short = opts.timeoutS
		}
		best, every := raceSolvers(opts.dir, fmt.Sprintf("%s.%d", ob.Name, i), script, short, opts.all)
		if best.Verdict != "unsat" && best.Verdict != "sat" {
			// strategies 2 and 3 run side by side: (2) leave out quantified
			// hypotheses that mention specification functions absent from the
			// goal; (3) of the quantified hypotheses that come from loop
			// invariants keep only those of the clause being proved.  Dropping
			// hypotheses is always sound.
			type alt struct {
				b    SolverResult
				e    []SolverResult
				name string
			}
			ch := make(chan alt, 2)
			stop := make(chan struct{})
			n := 0
			if slim, dropped := relevantHyps(hyps, q.Goal); dropped > 0 {
				n++
				script2 := q.Decls.query(slim, q.Goal, q.Vars)
				go func() {
					b2, e2 := raceSolversStop(opts.dir, fmt.Sprintf("%s.%d.slim", ob.Name, i), script2, opts.timeoutS, opts.all, stop)
					ch <- alt{b2, e2, "+slim"}
				}()
			}
			label := ob.Name[strings.LastIndex(ob.Name, "@")+1:]
			var own []*Term
			droppedOwn := 0
			for _, h := range hyps {
				if tag, ok := ex.hypTags[h]; ok && tag != label && hasQuantifier(h) {
					droppedOwn++
					continue
				}
				own = append(own, h)
			}
			if droppedOwn > 0 {
				n++
				script3 := q.Decls.query(own, q.Goal, q.Vars)
				go func() {
					b3, e3 := raceSolversStop(opts.dir, fmt.Sprintf("%s.%d.own", ob.Name, i), script3, opts.timeoutS, opts.all, stop)
					ch <- alt{b3, e3, "+own-clause"}
				}()
			}
			for ; n > 0; n-- {
				a := <-ch
				if a.b.Verdict == "unsat" && best.Verdict != "unsat" {
					best, every = a.b, a.e
					best.Solver += a.name
					break
				}
			}
			close(stop)
		}
		if best.Verdict != "unsat" && best.Verdict != "sat" && opts.timeoutS > short {
			best, every = raceSolvers(opts.dir, fmt.Sprintf("%s.%d", ob.Name, i), script, opts.timeoutS, opts.all)
		}
		solversUsed[best.Solver] = true
		switch best.Verdict {
		case "unsat":
			ob.Solver = best.Solver
			if opts.all {
				for _, r := range every {
					if r.Verdict == "sat" {
						ob.Verdict = "undischarged"
						ob.Detail = fmt.Sprintf("solvers disagree on path %s: %s says sat", q.Path, r.Solver)
						return
					}
				}
			}
		case "sat":
			ob.Verdict = "counterexample"
			ob.Solver = best.Solver
			ob.Model = parseGetValue(best.Output)
			if len(q.Slices) > 0 {
				ex.projectInputs(ob, q, hyps, opts, false)
			}
			ob.Detail = fmt.Sprintf("path %s: %s", q.Path, firstLines(best.Output, 1))
			ob.failScript = script
			return
		default:
			ob.Verdict = "undischarged"
			ob.Solver = best.Solver
			ob.Detail = fmt.Sprintf("path %s: %s", q.Path, best.Output)
			ob.failScript = script
			if len(q.Slices) > 0 {
				// no model: look for a candidate input in the quantifier-free
				// relaxation; only a replay on the real code can confirm it
				var qf []*Term
				for _, h := range hyps {
					if !hasQuantifier(h) {
						qf = append(qf, h)
					}
				}
				ex.projectInputs(ob, q, qf, opts, true)
				if len(ob.Model) > 0 {
					ob.Model["input.source"] = "candidate from the quantifier-free relaxation of the failed obligation (not a model of the full formula)"
				}
			}
			return
		}
	}
	// cover: a contract-level obligation that holds on every path only because
	// every path to it is infeasible holds vacuously - report that
	if os.Getenv("GOVC_NOCOVER") == "" && coverKind(ob) {
		covered := false
		var detail []string
		for i, q := range ob.Queries {
			if isTrue(q.Goal) && len(q.Hyps) == 0 {
				covered = true // decided without a solver and without assumptions
				break
			}
			hyps := append(append([]*Term(nil), ax...), q.Hyps...)
			script := q.Decls.query(hyps, nil, nil)
			best, _ := raceSolvers(opts.dir, fmt.Sprintf("%s.%d.cover", ob.Name, i), script, 1, false)
			if best.Verdict != "unsat" {
				covered = true
				break
			}
			detail = append(detail, fmt.Sprintf("path %s: hypotheses unsatisfiable", q.Path))
		}
		if !covered && len(ob.Queries) > 0 {
			ob.Verdict = "undischarged"
			ob.Detail = "vacuity: the obligation is proved only because no path reaches it: " + strings.Join(detail, "; ")
		}
	}
}

// coverKind: obligations that come from contract text (not the zero-annotation
// safety sweep) get a reachability check of their own.
func coverKind(ob *Obligation) bool {
	switch ob.Kind {
	case "assert", "post", "lockinv", "guarantee":
		return true
	}
	return strings.HasPrefix(ob.Kind, "inv")
}

func envOr(k, d string) string {
	if v := os.Getenv(k); v != "" {
		return v
	}
	return d
}

func init() {
	if os.Getenv("GOVC_DEBUGLIB") != "" {
		defer func() {}()
	}
}

// checkFlows: syntactic frame/ownership condition on a parameter.
func (ex *Exec) checkFlows(body *ast.BlockStmt, pname string, callees []string, pos token.Pos) {
	if i := strings.Index(pname, "."); i > 0 {
		// flows p.Field: callees - every mention of that field of the parameter
		// is a direct argument of one of the callees
		var obj types.Object
		if o, ok := ex.entryState.names[pname[:i]]; ok {
			obj = o
		}
		if obj == nil {
			ex.obligeAST("flows", pname, pos, false, "no parameter/captured variable named "+pname[:i], nil)
			return
		}
		field := pname[i+1:]
		allowed := map[token.Pos]bool{}
		ast.Inspect(body, func(x ast.Node) bool {
			call, ok := x.(*ast.CallExpr)
			if !ok {
				return true
			}
			fn := ex.calleeOf(call)
			if fn == nil {
				return true
			}
			okCallee := false
			for _, k := range hookKeys(fn) {
				for _, c := range callees {
					if c == k {
						okCallee = true
					}
				}
			}
			if okCallee {
				for _, a := range call.Args {
					if sel, ok := ast.Unparen(a).(*ast.SelectorExpr); ok {
						allowed[sel.Pos()] = true
					}
				}
			}
			return true
		})
		uses, bad := 0, 0
		var where []string
		ast.Inspect(body, func(x ast.Node) bool {
			sel, ok := x.(*ast.SelectorExpr)
			if !ok || sel.Sel.Name != field {
				return true
			}
			if id, ok := ast.Unparen(sel.X).(*ast.Ident); ok && ex.Info.ObjectOf(id) == obj {
				uses++
				if !allowed[sel.Pos()] {
					bad++
					where = append(where, ex.posStr(sel.Pos()))
				}
			}
			return true
		})
		ex.obligeAST("flows", pname, pos, bad == 0 && uses >= 1, fmt.Sprintf("%s is mentioned %d time(s); mentions other than as argument of %v at %v", pname, uses, callees, where), nil)
		return
	}
	var obj types.Object
	if o, ok := ex.entryState.names[pname]; ok {
		obj = o
	}
	if obj == nil {
		ex.obligeAST("flows", pname, pos, false, "no parameter/captured variable named "+pname, nil)
		return
	}
	uses, bad, where := ex.flowUses(body, obj, callees, 0)
	ex.obligeAST("flows", pname, pos, bad == 0 && uses >= 1, fmt.Sprintf("%s is used %d time(s); uses other than as argument of %v at %v", pname, uses, callees, where), nil)
}

// flowUses counts the uses of obj in body and those that are not a direct
// argument of a listed callee (or a listed field read).  Passing obj to a
// contract-less helper of the same package is followed into that helper.
func (ex *Exec) flowUses(body *ast.BlockStmt, obj types.Object, callees []string, depth int) (int, int, []string) {
	allowed := map[token.Pos]bool{}
	ast.Inspect(body, func(x ast.Node) bool {
		call, ok := x.(*ast.CallExpr)
		if !ok {
			return true
		}
		fn := ex.calleeOf(call)
		if fn == nil {
			return true
		}
		okCallee := false
		for _, k := range hookKeys(fn) {
			for _, c := range callees {
				if c == k {
					okCallee = true
				}
			}
		}
		if !okCallee && depth < 3 && ex.U != nil && fn.Pkg() != nil && fn.Pkg().Path() == ex.U.Pkg.PkgPath {
			// same-package helper without a contract: look inside
			key := calleeKey(fn)
			short := key[strings.Index(key, ".")+1:]
			if fd := ex.U.Funcs[short]; fd != nil && fd.Body != nil && ex.U.FSpecs[short] == nil && fd.Type.Params != nil {
				var params []types.Object
				for _, f := range fd.Type.Params.List {
					for _, n := range f.Names {
						params = append(params, ex.Info.Defs[n])
					}
				}
				for i, a := range call.Args {
					if id, ok := ast.Unparen(a).(*ast.Ident); ok && ex.Info.ObjectOf(id) == obj && len(params) > 0 {
						j := i
						if j >= len(params) {
							j = len(params) - 1
						}
						if params[j] != nil {
							if u2, b2, _ := ex.flowUses(fd.Body, params[j], callees, depth+1); b2 == 0 && u2 >= 0 {
								allowed[id.Pos()] = true
							}
						}
					}
				}
			}
			return true
		}
		if !okCallee {
			return true
		}
		for _, a := range call.Args {
			if id, ok := ast.Unparen(a).(*ast.Ident); ok && ex.Info.ObjectOf(id) == obj {
				allowed[id.Pos()] = true
			}
		}
		return true
	})
	// ".Field" entries allow reading that field of the parameter
	ast.Inspect(body, func(x ast.Node) bool {
		if sel, ok := x.(*ast.SelectorExpr); ok {
			if id, ok := ast.Unparen(sel.X).(*ast.Ident); ok && ex.Info.ObjectOf(id) == obj {
				for _, c := range callees {
					if c == "."+sel.Sel.Name {
						allowed[id.Pos()] = true
					}
				}
			}
		}
		return true
	})
	uses, bad := 0, 0
	var where []string
	ast.Inspect(body, func(x ast.Node) bool {
		if id, ok := x.(*ast.Ident); ok && ex.Info.Uses[id] == obj {
			uses++
			if !allowed[id.Pos()] {
				bad++
				where = append(where, ex.posStr(id.Pos()))
			}
		}
		return true
	})
	return uses, bad, where
}

// checkAssignsNone: the body writes no field, package variable, element or
// pointee (locals only) - so nothing can be cached across calls.
func (ex *Exec) checkAssignsNone(body *ast.BlockStmt, pos token.Pos) {
	var bad []string
	visit := func(l ast.Expr) {
		switch t := ast.Unparen(l).(type) {
		case *ast.Ident:
			if o, ok := ex.Info.ObjectOf(t).(*types.Var); ok && o.Pkg() != nil && o.Parent() == o.Pkg().Scope() {
				bad = append(bad, ex.posStr(t.Pos())+": package variable "+t.Name)
			}
		case *ast.SelectorExpr, *ast.IndexExpr, *ast.StarExpr:
			bad = append(bad, ex.posStr(l.Pos())+": "+exprText(l))
		}
	}
	ast.Inspect(body, func(x ast.Node) bool {
		switch a := x.(type) {
		case *ast.AssignStmt:
			for _, l := range a.Lhs {
				visit(l)
			}
		case *ast.IncDecStmt:
			visit(a.X)
		}
		return true
	})
	ex.obligeAST("assigns-none", "", pos, len(bad) == 0, "writes to non-local state: "+strings.Join(bad, ", "), nil)
}

// computeBoxed finds struct-typed locals of the enclosing declaration that
// live on the heap: address taken, pointer-receiver method called on them or
// on one of their fields, or captured by a closure.
func (ex *Exec) computeBoxed(u *Unit, name string) {
	ex.boxed = map[types.Object]bool{}
	base := name
	if i := strings.Index(name, "#"); i >= 0 {
		base = name[:i]
	}
	fd := u.Funcs[base]
	if fd == nil || fd.Body == nil {
		return
	}
	isStructLocal := func(e ast.Expr) types.Object {
		for {
			switch x := ast.Unparen(e).(type) {
			case *ast.SelectorExpr:
				if si := ex.Info.Selections[x]; si != nil && si.Kind() == types.FieldVal && !si.Indirect() {
					e = x.X
					continue
				}
				return nil
			case *ast.Ident:
				o, ok := ex.Info.ObjectOf(x).(*types.Var)
				if !ok || o.IsField() || o.Pkg() == nil || o.Parent() == o.Pkg().Scope() {
					return nil
				}
				if _, ok := o.Type().Underlying().(*types.Struct); ok {
					return o
				}
				return nil
			default:
				return nil
			}
		}
	}
	var lits []*ast.FuncLit
	ast.Inspect(fd.Body, func(x ast.Node) bool {
		switch n := x.(type) {
		case *ast.UnaryExpr:
			if n.Op == token.AND {
				if o := isStructLocal(n.X); o != nil {
					ex.boxed[o] = true
				}
			}
		case *ast.SelectorExpr:
			if si := ex.Info.Selections[n]; si != nil && si.Kind() == types.MethodVal {
				if fn, ok := si.Obj().(*types.Func); ok {
					if r := fn.Type().(*types.Signature).Recv(); r != nil {
						if _, isPtr := r.Type().(*types.Pointer); isPtr {
							if o := isStructLocal(n.X); o != nil {
								ex.boxed[o] = true
							}
						}
					}
				}
			}
		case *ast.FuncLit:
			lits = append(lits, n)
		}
		return true
	})
	for _, lit := range lits {
		ast.Inspect(lit.Body, func(x ast.Node) bool {
			if id, ok := x.(*ast.Ident); ok {
				if o, ok := ex.Info.Uses[id].(*types.Var); ok && !o.IsField() && o.Pkg() != nil && o.Parent() != o.Pkg().Scope() {
					if o.Pos() < lit.Pos() || o.Pos() >= lit.End() {
						if _, isStruct := o.Type().Underlying().(*types.Struct); isStruct {
							ex.boxed[o] = true
						}
					}
				}
			}
			return true
		})
	}
}

// relevantHyps drops quantified hypotheses that mention a specification
// function (spec$...) which the goal does not mention.
func relevantHyps(hyps []*Term, goal *Term) ([]*Term, int) {
	gs := map[string]bool{}
	collectSyms(goal, gs)
	var out []*Term
	dropped := 0
	for _, h := range hyps {
		if hasQuantifier(h) {
			hs := map[string]bool{}
			collectSyms(h, hs)
			foreign := false
			for k := range hs {
				if strings.HasPrefix(k, "spec$") && !gs[k] {
					foreign = true
				}
			}
			if foreign {
				dropped++
				continue
			}
		}
		out = append(out, h)
	}
	return out, dropped
}

// lemmaInstance evaluates `name(args...)`: the lemma's body with its
// parameters replaced by the arguments.  The lemma itself is proved (for all
// parameter values) as its own obligation, so the instance may be assumed.
func (ex *Exec) lemmaInstance(st *State, src string, where string) *Term {
	// "oldmem lemma(args)": the instance is about the memory of function entry
	useOld := false
	if t := strings.TrimSpace(src); strings.HasPrefix(t, "oldmem ") {
		useOld = true
		src = strings.TrimSpace(strings.TrimPrefix(t, "oldmem "))
	}
	e, err := parseSpecExpr(src)
	if err != nil {
		ex.specFail("%s: cannot parse %q", where, src)
	}
	call, ok := e.(*ast.CallExpr)
	if !ok {
		ex.specFail("%s: expected lemma(args...)", where)
	}
	name := exprText(call.Fun)
	l := ex.W.Lemmas[name]
	if l == nil {
		ex.specFail("%s: unknown lemma %q", where, name)
	}
	if len(call.Args) != len(l.Params) {
		ex.specFail("%s: lemma %s takes %d arguments", where, name, len(l.Params))
	}
	u := ex.unitForFile(l.File)
	ex.specDepth++
	var args []*Val
	for i, a := range call.Args {
		pt := ex.parseSpecType(l.Params[i].Type, u)
		v := ex.coerce(st, ex.materialize(ex.expr(st, a), pt), pt)
		args = append(args, v)
	}
	ex.specDepth--
	saved := map[string]*Val{}
	for i, p := range l.Params {
		saved[p.Name] = st.bound[p.Name]
		st.bound[p.Name] = args[i]
	}
	saveNL := ex.specNoLocals
	ex.specNoLocals = true
	var g *Term
	if useOld && st.old != nil {
		ev := st.clone()
		ev.heaps = map[string]*Term{}
		for k, t := range st.old.heaps {
			ev.heaps[k] = t
		}
		npc := len(ev.pc)
		g = ex.evalSpecBool(ev, l.Body, u, where+" "+name)
		for _, p := range ev.pc[npc:] {
			st.assume(p)
		}
		for k, t := range ev.heaps {
			if _, ok := st.heaps[k]; !ok {
				st.heaps[k] = t
			}
			if _, ok := st.old.heaps[k]; !ok {
				st.old.heaps[k] = t
			}
		}
	} else {
		g = ex.evalSpecBool(st, l.Body, u, where+" "+name)
	}
	ex.specNoLocals = saveNL
	for n, v := range saved {
		if v == nil {
			delete(st.bound, n)
		} else {
			st.bound[n] = v
		}
	}
	ex.lemmasUsed[name] = true
	if l.Axiom {
		ex.W.Trusted["axiom (unproved): "+l.Name+": "+l.Body] = true
	}
	return g
}

// frameObligations: the frame the callers of a function under contract rely
// on ("it changes nothing its callers can see except what its modifies clause
// lists and objects it allocates") as obligations of the function itself: for
// every struct-field, slice-element, map and box heap this exit path has
// changed, every object that existed at entry still has its entry value -
// unless the heap is named by the modifies clause, or the field is protected
// by a lock this function acquires itself (callers cannot hold that lock and
// re-read the field under their own acquisition, where it is havocked anyway).
func (ex *Exec) frameObligations(e *State, fs *FuncSpec, pos token.Pos) {
	if os.Getenv("GOVC_NOFRAME") != "" || ex.entryState == nil {
		return
	}
	exempt := map[string]bool{}
	anyMem := false
	for _, m := range fs.Modifies {
		m = strings.TrimSpace(m)
		switch {
		case strings.HasPrefix(m, "Mem("):
			anyMem = true
		case strings.HasPrefix(m, "heap(") && strings.HasSuffix(m, ")"):
			exempt[m[5:len(m)-1]] = true
		default:
			if i := strings.LastIndex(m, "."); i >= 0 {
				exempt[m[i+1:]] = true
			}
		}
	}
	// fields protected by a lock taken in this body
	for _, ts := range ex.unitTypeSpecs() {
		for lname, ls := range ts.Locks {
			if !ex.locksTaken[ts.Name+"."+lname] {
				continue
			}
			for _, p := range ls.Protects {
				exempt[p] = true
			}
		}
		for _, g := range ts.Ghosts {
			exempt[g.Name] = true
		}
	}
	// what the body (with the helpers executed in place) assigns at all: a
	// heap that is only ever read here can differ from its entry value only
	// through what other threads do while this one waits, which is not this
	// function's effect
	assigned, mapWrites := ex.assignedFields()
	// maps held in a field protected by a lock taken here
	for _, ts := range ex.unitTypeSpecs() {
		for lname, ls := range ts.Locks {
			if !ex.locksTaken[ts.Name+"."+lname] {
				continue
			}
			for _, p := range ls.Protects {
				if ft := ex.fieldTypeOfSpec(ts, p); ft != nil {
					if mt, ok := ft.Underlying().(*types.Map); ok {
						vn, hn, _, _ := ex.mapHeaps(e, mt)
						exempt[vn], exempt[hn] = true, true
					}
				}
			}
		}
	}
	var names []string
	for k := range e.heaps {
		names = append(names, k)
	}
	sort.Strings(names)
	a0 := ex.entryAlloc
	r := mk("r?", SInt)
	for _, k := range names {
		isField := strings.HasPrefix(k, "H$")
		isMem := strings.HasPrefix(k, "Mem$")
		isMap := strings.HasPrefix(k, "Map$") || strings.HasPrefix(k, "MapHas$")
		isBox := strings.HasPrefix(k, "Box$")
		// slice-element memory and boxes are left to explicit frame
		// postconditions (writesOnlySpare, onlyFreshWritten): loops that fill
		// a fresh slice replace the whole memory by a symbol their invariants
		// would have to pin down again
		_, _ = isMem, isBox
		if !(isField || isMap) {
			continue
		}
		now := e.heaps[k]
		was, ok := ex.entryState.heaps[k]
		if !ok {
			// first touched after entry: its entry value is the initial symbol
			srt, known := ex.heapSorts[k]
			if !known {
				continue
			}
			was = ex.D.konst(k+"@0", srt)
		}
		if was == now || (was.Op == now.Op && len(now.Args) == 0) {
			continue
		}
		if isMem && anyMem {
			continue
		}
		short := k
		if i := strings.LastIndex(k, "$"); i >= 0 {
			short = k[i+1:]
		}
		if isField && (exempt[short] || strings.HasPrefix(short, "$") || !assigned[short]) {
			continue
		}
		if isMap && !mapWrites {
			continue
		}
		if exempt[k] {
			continue
		}
		goal := forall([]*Term{r}, implies(and(gt(r, intLit(0)), lt(r, a0)), eq(sel(now, r), sel(was, r))), []*Term{sel(now, r)})
		label := short
		if isMap {
			label = strings.ReplaceAll(strings.TrimPrefix(strings.TrimPrefix(k, "MapHas$"), "Map$"), "$", "_to_")
			if strings.HasPrefix(k, "MapHas$") {
				label = "keys_of_map_" + label
			} else {
				label = "values_of_map_" + label
			}
		}
		ex.oblige(e, "frame", label, pos, goal, nil)
	}
}

func (ex *Exec) unitTypeSpecs() []*TypeSpec {
	var out []*TypeSpec
	for _, u := range ex.W.Units {
		for _, ts := range u.TSpecs {
			out = append(out, ts)
		}
	}
	sort.Slice(out, func(i, j int) bool { return out[i].Name < out[j].Name })
	return out
}

// assignedFields: names of the fields the unit's body (and the helpers it
// executed in place) assigns through a selector, and whether it stores into,
// deletes from or clears any map.
func (ex *Exec) assignedFields() (map[string]bool, bool) {
	fields := map[string]bool{}
	maps := false
	lhs := func(x ast.Expr) {
		switch l := ast.Unparen(x).(type) {
		case *ast.SelectorExpr:
			fields[l.Sel.Name] = true
		case *ast.IndexExpr:
			if t := ex.typeOf(l.X); t != nil {
				if _, ok := t.Underlying().(*types.Map); ok {
					maps = true
				}
			} else {
				maps = true
			}
			// an element of an array-typed field
			if sel, ok := ast.Unparen(l.X).(*ast.SelectorExpr); ok {
				fields[sel.Sel.Name] = true
			}
		case *ast.StarExpr:
			// *p = v where p may point at a field: every field whose address is taken somewhere
			for f := range ex.W.addrTakenFields() {
				fields[f.Name()] = true
			}
		}
	}
	bodies := append([]ast.Node{ex.unitBody}, ex.inlinedBodies...)
	for _, b := range bodies {
		if b == nil {
			continue
		}
		ast.Inspect(b, func(n ast.Node) bool {
			switch s := n.(type) {
			case *ast.AssignStmt:
				for _, l := range s.Lhs {
					lhs(l)
				}
			case *ast.IncDecStmt:
				lhs(s.X)
			case *ast.CallExpr:
				if id, ok := ast.Unparen(s.Fun).(*ast.Ident); ok && (id.Name == "delete" || id.Name == "clear") {
					maps = true
				}
			}
			return true
		})
	}
	return fields, maps
}

func (ex *Exec) fieldTypeOfSpec(ts *TypeSpec, field string) types.Type {
	for _, u := range ex.W.Units {
		if u.TSpecs[ts.Name] != ts {
			continue
		}
		if o := u.Pkg.Types.Scope().Lookup(ts.Name); o != nil {
			return ex.fieldTypeByName(o.Type(), field)
		}
	}
	return nil
}

// terminationCheck (clause `terminates`): every activation of the function
// ends, given that the library functions it calls return.  Decided on the
// syntax: every loop is a `range` over a slice, array, string, map, integer
// or one of the finite library iterators (slices.Chunk, maps.Keys, ...), or a
// `for` loop whose contract clause has a `decreases` measure (then proved by
// the loop obligations); no goto, no labelled continue to an outer `for`, and
// no call of the function itself or of a function of this program other than
// ones that also carry `terminates`.
func (ex *Exec) terminationCheck(fs *FuncSpec, body ast.Node, name string) {
	ok := true
	var why []string
	bad := func(pos token.Pos, f string, a ...any) {
		ok = false
		why = append(why, ex.posStr(pos)+": "+fmt.Sprintf(f, a...))
	}
	ord := 0
	var walk func(n ast.Node, path string)
	loopPath := func(parent string, k int) string {
		if parent == "" {
			return fmt.Sprint(k)
		}
		return parent + "." + fmt.Sprint(k)
	}
	_ = ord
	walk = func(n ast.Node, path string) {
		k := 0
		ast.Inspect(n, func(x ast.Node) bool {
			if x == n {
				return true
			}
			switch s := x.(type) {
			case *ast.RangeStmt:
				k++
				p := loopPath(path, k)
				t := ex.typeOf(s.X)
				finite := false
				if t != nil {
					switch u := t.Underlying().(type) {
					case *types.Slice, *types.Array, *types.Map:
						finite = true
					case *types.Basic:
						finite = u.Info()&(types.IsString|types.IsInteger) != 0
					case *types.Pointer:
						_, finite = u.Elem().Underlying().(*types.Array)
					case *types.Signature:
						// range over a function: only the finite library iterators
						if call, isCall := ast.Unparen(s.X).(*ast.CallExpr); isCall {
							switch exprText(call.Fun) {
							case "slices.Chunk", "slices.Values", "slices.All", "maps.Keys", "maps.Values", "maps.All", "strings.SplitSeq", "bytes.SplitSeq":
								finite = true
							}
						}
					}
				}
				if !finite {
					bad(s.Pos(), "loop %s ranges over something not known to be finite (%s)", p, exprText(s.X))
				}
				walk(s.Body, p)
				return false
			case *ast.ForStmt:
				k++
				p := loopPath(path, k)
				if ls := fs.Loops[p]; ls == nil || ls.Decr == nil {
					bad(s.Pos(), "`for` loop %s has no decreases measure", p)
				}
				walk(s.Body, p)
				return false
			case *ast.BranchStmt:
				if s.Tok == token.GOTO {
					bad(s.Pos(), "goto")
				}
			case *ast.FuncLit:
				return true
			case *ast.CallExpr:
				var fn *types.Func
				switch f := ast.Unparen(s.Fun).(type) {
				case *ast.Ident:
					fn, _ = ex.Info.Uses[f].(*types.Func)
				case *ast.SelectorExpr:
					fn, _ = ex.Info.Uses[f.Sel].(*types.Func)
				}
				if fn != nil && fn.Pkg() != nil {
					if u := ex.W.Units[fn.Pkg().Path()]; u != nil {
						key := calleeKey(fn)
						short := key[strings.Index(key, ".")+1:]
						if cs := u.FSpecs[short]; cs == nil || !cs.Terminates {
							bad(s.Pos(), "calls %s, which is not known to terminate", key)
						}
					}
				}
			}
			return true
		})
	}
	walk(body, "")
	ex.obligeAST("termination", "every_loop_is_finite_and_nothing_recurs", body.Pos(), ok,
		name+": "+strings.Join(why, "; "), nil)
	ex.W.Trusted["termination of "+ex.FName+": library functions called by it return; `range` over a slice, array, string, map, integer or a finite library iterator ends"] = true
}

// calledOnlyByCheck (clause `calledonlyby A, B`): every call of the function
// in its package (test files excluded) is in the body of one of the listed
// functions.  Used where a function has an effect that is only right for one
// kind of caller (writePlain drops its argument while muted: only shell
// output may go through it).
func (ex *Exec) calledOnlyByCheck(fs *FuncSpec, u *Unit, name string, pos token.Pos) {
	allowed := map[string]bool{}
	for _, a := range fs.CalledOnlyBy {
		allowed[a] = true
	}
	target := u.Funcs[name]
	if target == nil {
		return
	}
	tobj := u.Pkg.TypesInfo.Defs[target.Name]
	var bad []string
	names := make([]string, 0, len(u.Funcs))
	for n := range u.Funcs {
		names = append(names, n)
	}
	sort.Strings(names)
	for _, n := range names {
		fd := u.Funcs[n]
		if fd.Body == nil || allowed[n] {
			continue
		}
		ast.Inspect(fd.Body, func(x ast.Node) bool {
			var id *ast.Ident
			switch f := x.(type) {
			case *ast.SelectorExpr:
				id = f.Sel
			case *ast.Ident:
				id = f
			}
			if id != nil && tobj != nil && u.Pkg.TypesInfo.Uses[id] == tobj {
				bad = append(bad, n+" ("+ex.posStr(id.Pos())+")")
			}
			return true
		})
	}
	ex.obligeAST("callers", "only_"+strings.Join(fs.CalledOnlyBy, "_"), pos, len(bad) == 0,
		fmt.Sprintf("%s is also used by %s", name, strings.Join(bad, ", ")), nil)
}

// pointerReceiverCheck: a method of a type that declares a lock (or embeds
// sync state the contracts rely on) must have a pointer receiver: with a
// value receiver every call works on a private copy of the locks and of the
// state they protect (go vet's copylocks, here an obligation because the
// repository's test command runs with -vet=off).
func (ex *Exec) pointerReceiverCheck(u *Unit, name string, recv *ast.FieldList, pos token.Pos) {
	if len(recv.List) != 1 {
		return
	}
	t := recv.List[0].Type
	_, isPtr := t.(*ast.StarExpr)
	tn := recvTypeName(t)
	ts := u.TSpecs[tn]
	if ts == nil || len(ts.Locks) == 0 {
		return
	}
	ex.obligeAST("receiver", "pointer_receiver_on_a_type_with_locks", pos, isPtr,
		fmt.Sprintf("%s has a value receiver: every call copies %s with its locks and the state they protect", name, tn), nil)
}
