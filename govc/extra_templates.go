package main

// extra_templates.go - structural obligations on the text/template sources the
// properties depend on (C05, C07, C16, C18), and the Lean lemma about POSIX
// single-quote lexing.  Templates are not executed symbolically; their parse
// trees are checked (labelled structural, backend ast-check).

import (
	"fmt"
	"go/ast"
	"go/constant"
	"os"
	"os/exec"
	"path/filepath"
	"strings"
	"text/template/parse"
	"time"
)

func init() {
	extraChecks["C18"] = append(extraChecks["C18"], funcListTemplateCheck, leanShQuote)
	extraChecks["C16"] = append(extraChecks["C16"], perlTemplateCheck, leanShQuote)
	extraChecks["C05"] = append(extraChecks["C05"], func(w *World, t string, s int64) extraResult { return scriptTemplateCheck(w, "C05") })
	extraChecks["C07"] = append(extraChecks["C07"], func(w *World, t string, s int64) extraResult { return scriptTemplateCheck(w, "C07") })
}

// templateSource finds `var <name> = template.Must(template.New(..).Parse(<const>))`.
func templateSource(u *Unit, varName string) (string, bool) {
	for _, f := range u.Pkg.Syntax {
		for _, d := range f.Decls {
			gd, ok := d.(*ast.GenDecl)
			if !ok {
				continue
			}
			for _, sp := range gd.Specs {
				vs, ok := sp.(*ast.ValueSpec)
				if !ok {
					continue
				}
				for i, n := range vs.Names {
					if n.Name != varName || i >= len(vs.Values) {
						continue
					}
					var src string
					found := false
					ast.Inspect(vs.Values[i], func(x ast.Node) bool {
						c, ok := x.(*ast.CallExpr)
						if !ok {
							return true
						}
						if sel, ok := c.Fun.(*ast.SelectorExpr); ok && sel.Sel.Name == "Parse" && len(c.Args) == 1 {
							if tv, ok := u.Pkg.TypesInfo.Types[c.Args[0]]; ok && tv.Value != nil && tv.Value.Kind() == constant.String {
								src = constant.StringVal(tv.Value)
								found = true
							}
						}
						return true
					})
					return src, found
				}
			}
		}
	}
	return "", false
}

type tmplOb struct {
	res  *extraResult
	fn   string
	prop string
}

func (t tmplOb) add(name string, ok bool, msg string) {
	ob := &Obligation{Name: t.fn + "/structural@" + name, Kind: "structural", Func: t.fn, Props: []string{t.prop}, Backend: "ast", ASTOK: ok, Solver: "ast-check"}
	if ok {
		ob.Verdict = "discharged"
	} else {
		ob.Verdict = "undischarged"
		ob.Detail = msg
	}
	t.res.Obligations = append(t.res.Obligations, ob)
}

// flatten lists the nodes of a template body in order.
func flattenNodes(l *parse.ListNode) []parse.Node {
	var out []parse.Node
	if l == nil {
		return nil
	}
	for _, n := range l.Nodes {
		out = append(out, n)
	}
	return out
}

func actionText(n parse.Node) string { return strings.TrimSpace(n.String()) }

func funcListTemplateCheck(w *World, tier string, seed int64) extraResult {
	var res extraResult
	t := tmplOb{&res, "shellfuncsfile.funcListTemplate", "C18"}
	u := w.unitByShort("shellfuncsfile")
	if u == nil {
		t.add("found", false, "package shellfuncsfile not loaded")
		return res
	}
	src, ok := templateSource(u, "funcListTemplate")
	if !ok {
		t.add("found", false, "funcListTemplate is not template.Must(...Parse(<constant>))")
		return res
	}
	trees, err := parse.Parse("funcList", src, "", "")
	if err != nil {
		t.add("parses", false, err.Error())
		return res
	}
	root := trees["funcList"]
	nodes := flattenNodes(root.Root)
	shape := len(nodes) == 3
	if shape {
		_, a := nodes[0].(*parse.TextNode)
		r, b := nodes[1].(*parse.RangeNode)
		_, c := nodes[2].(*parse.TextNode)
		shape = a && b && c
		if shape {
			t.add("header_is_the_function_name", strings.TrimSpace(nodes[0].String()) == "tab_list() {", "text before the range is "+nodes[0].String())
			t.add("ranges_over_all_rows", actionText(r.Pipe) == "." && r.ElseList == nil, "range pipeline is "+r.Pipe.String())
			body := flattenNodes(r.List)
			okb := len(body) == 3
			if okb {
				pre, p1 := body[0].(*parse.TextNode)
				act, p2 := body[1].(*parse.ActionNode)
				post, p3 := body[2].(*parse.TextNode)
				okb = p1 && p2 && p3 && strings.HasSuffix(string(pre.Text), "echo '") && !strings.Contains(string(pre.Text), "\n") &&
					actionText(act.Pipe) == "." && strings.HasPrefix(string(post.Text), "'\n") && strings.TrimSpace(string(post.Text)) == "'"
			}
			t.add("each_row_is_echo_single_quoted_row_newline", okb, "range body is "+r.List.String())
			t.add("footer_closes_the_function", strings.TrimSpace(nodes[2].String()) == "}", "text after the range is "+nodes[2].String())
		}
	}
	t.add("shape_text_range_text", shape, "template is "+root.Root.String())
	res.Trusted = append(res.Trusted, "text/template executes a parsed tree as its parse tree says (structural check of funcListTemplate only)")
	return res
}

// fieldUses counts {{.Name}} occurrences in a tree.
func fieldUses(n parse.Node, out map[string]int) {
	switch x := n.(type) {
	case *parse.ListNode:
		if x != nil {
			for _, c := range x.Nodes {
				fieldUses(c, out)
			}
		}
	case *parse.ActionNode:
		fieldUses(x.Pipe, out)
	case *parse.PipeNode:
		for _, c := range x.Cmds {
			fieldUses(c, out)
		}
	case *parse.CommandNode:
		for _, a := range x.Args {
			fieldUses(a, out)
		}
	case *parse.FieldNode:
		out[strings.Join(x.Ident, ".")]++
	case *parse.IfNode:
		out["<if>"]++
	case *parse.RangeNode:
		out["<range>"]++
	case *parse.WithNode:
		out["<with>"]++
	case *parse.TemplateNode:
		out["<template "+x.Name+" "+actionText(x.Pipe)+">"]++
	}
}

func perlTemplateCheck(w *World, tier string, seed int64) extraResult {
	var res extraResult
	t := tmplOb{&res, "shellfuncsfile.perlTemplate", "C16"}
	u := w.unitByShort("shellfuncsfile")
	if u == nil {
		t.add("found", false, "package shellfuncsfile not loaded")
		return res
	}
	src, ok := templateSource(u, "perlTemplate")
	if !ok {
		t.add("found", false, "perlTemplate is not template.Must(...Parse(<constant>))")
		return res
	}
	trees, err := parse.Parse("perl", src, "", "")
	if err != nil {
		t.add("parses", false, err.Error())
		return res
	}
	root := trees["perl"].Root
	uses := map[string]int{}
	fieldUses(root, uses)
	t.add("fields_each_exactly_once", uses["LeadComments"] == 1 && uses["FuncName"] == 1 && uses["PerlUU"] == 1 && len(uses) == 3, fmt.Sprintf("field uses: %v", uses))
	// the uuencoded body sits between q{` newline ... newline }=~y/sb/\47\134/r
	nodes := flattenNodes(root)
	okPos := false
	for i, n := range nodes {
		if a, ok := n.(*parse.ActionNode); ok && actionText(a.Pipe) == ".PerlUU" && i > 0 && i+1 < len(nodes) {
			pre, p1 := nodes[i-1].(*parse.TextNode)
			post, p2 := nodes[i+1].(*parse.TextNode)
			okPos = p1 && p2 && strings.HasSuffix(string(pre.Text), "eval(unpack(u,q{`\n") && strings.HasPrefix(string(post.Text), "\n}=~y/sb/\\47\\134/r));")
		}
	}
	t.add("body_is_unpacked_after_restoring_quote_and_backslash", okPos, "PerlUU is not between \"eval(unpack(u,q{`\\n\" and \"\\n}=~y/sb/\\47\\134/r));\"")
	okName := false
	for i, n := range nodes {
		if a, ok := n.(*parse.ActionNode); ok && actionText(a.Pipe) == ".FuncName" && i+1 < len(nodes) {
			post, p := nodes[i+1].(*parse.TextNode)
			okName = p && strings.HasPrefix(string(post.Text), "() {(")
			if i > 0 {
				if pa, ok := nodes[i-1].(*parse.ActionNode); !ok || actionText(pa.Pipe) != ".LeadComments" {
					okName = false
				}
			}
		}
	}
	t.add("lead_comments_then_function_named_by_FuncName", okName, "FuncName is not directly after LeadComments and before \"() {(\"")
	res.Trusted = append(res.Trusted, "sh and perl semantics of the fixed perlTemplate text (arguments forwarded, eval of the unpacked script, die message, exit) - not decidable by a contract")
	return res
}

func scriptTemplateCheck(w *World, prop string) extraResult {
	var res extraResult
	t := tmplOb{&res, "hsrv.script.tmpl", prop}
	data, err := os.ReadFile(filepath.Join(repoRoot, "internal/hsrv/script.tmpl"))
	if err != nil {
		t.add("found", false, err.Error())
		return res
	}
	trees, err := parse.Parse("", string(data), "", "")
	if err != nil {
		t.add("parses", false, err.Error())
		return res
	}
	curl, main := trees["curl"], trees[""]
	if curl == nil || main == nil {
		t.add("has_curl_define_and_body", false, "missing define \"curl\" or body")
		return res
	}
	cu := map[string]int{}
	fieldUses(curl.Root, cu)
	t.add("curl_command_pins_PubkeyFP_and_calls_URL_once_each", cu["PubkeyFP"] == 1 && cu["URL"] == 1 && len(cu) == 2, fmt.Sprintf("fields used in define curl: %v", cu))
	cs := curl.Root.String()
	t.add("pin_is_sha256_of_PubkeyFP_and_address_is_https_URL", strings.Contains(cs, `--pinnedpubkey "sha256//{{.PubkeyFP}}" https://{{.URL}}`), "define curl is "+cs)
	mu := map[string]int{}
	fieldUses(main.Root, mu)
	t.add("both_commands_use_the_one_curl_define_and_the_same_ID", mu["<template curl .>"] == 2 && mu["ID"] == 2 && len(mu) == 2, fmt.Sprintf("body uses: %v", mu))
	ms := main.Root.String()
	t.add("input_and_output_paths", strings.Contains(ms, `{{template "curl" .}}/i/{{.ID}}`) && strings.Contains(ms, `{{template "curl" .}}/o/{{.ID}}`), "body is "+ms)
	res.Trusted = append(res.Trusted, "text/template executes script.tmpl as its parse tree says; sh and curl semantics of the generated script")
	return res
}

// leanShQuote re-checks the Lean proof that a single-quoted word with every
// quote replaced by '\'' lexes to the original string.
func leanShQuote(w *World, tier string, seed int64) extraResult {
	var res extraResult
	ob := &Obligation{Name: "lemma.shquote_esc/lean", Kind: "lemma", Func: "lemma.shquote_esc", Backend: "ast", Solver: "lean-4.33", Props: []string{"C18", "C16"}}
	t0 := time.Now()
	cmd := exec.Command("lean", filepath.Join(verifRoot, "lean", "ShQuote.lean"))
	out, err := cmd.CombinedOutput()
	ob.Ms = time.Since(t0).Milliseconds()
	if err == nil && !strings.Contains(string(out), "error") && !strings.Contains(string(out), "sorry") {
		ob.Verdict = "discharged"
		ob.ASTOK = true
	} else {
		ob.Verdict = "undischarged"
		ob.Detail = "lean: " + firstLines(string(out), 5)
	}
	res.Obligations = append(res.Obligations, ob)
	res.Trusted = append(res.Trusted, "dash/bash implement the POSIX single-quote fragment modelled by lex in lean/ShQuote.lean; Lean 4 kernel")
	return res
}
