package main

// spec.go - evaluation of specification expressions and ghost statements.

import (
	"fmt"
	"go/ast"
	"go/constant"
	"go/parser"
	"go/token"
	"go/types"
	"sort"
	"strings"
)

var exprCache = map[string]ast.Expr{}

func parseSpecExpr(src string) (ast.Expr, error) {
	if e, ok := exprCache[src]; ok {
		return e, nil
	}
	e, err := parser.ParseExpr(src)
	if err != nil {
		return nil, err
	}
	exprCache[src] = e
	return e, nil
}

// specError is raised (as a panic) for malformed contracts.
type specError struct{ msg string }

func (e specError) Error() string { return e.msg }

func (ex *Exec) specFail(format string, a ...any) {
	panic(specError{fmt.Sprintf(format, a...)})
}

// parseSpecType maps a type name used in contracts to a Go type.
func (ex *Exec) parseSpecType(name string, u *Unit) types.Type {
	switch name {
	case "int":
		return tInt
	case "bool":
		return tBool
	case "byte":
		return tByte
	case "string":
		return tString
	case "[]byte":
		return tBytes
	case "[]string":
		return tStrs
	case "error":
		return tErr
	case "any", "ref":
		return tAny
	}
	if o := types.Universe.Lookup(name); o != nil {
		if tn, ok := o.(*types.TypeName); ok {
			return tn.Type()
		}
	}
	if strings.HasPrefix(name, "*") {
		return types.NewPointer(ex.parseSpecType(name[1:], u))
	}
	if strings.HasPrefix(name, "[]") {
		return types.NewSlice(ex.parseSpecType(name[2:], u))
	}
	if strings.HasPrefix(name, "map[") {
		d := 0
		for i := 3; i < len(name); i++ {
			if name[i] == '[' {
				d++
			} else if name[i] == ']' {
				d--
				if d == 0 {
					return types.NewMap(ex.parseSpecType(name[4:i], u), ex.parseSpecType(name[i+1:], u))
				}
			}
		}
	}
	if strings.HasPrefix(name, "[") {
		if i := strings.Index(name, "]"); i > 0 {
			var n int64
			if _, err := fmt.Sscanf(name[1:i], "%d", &n); err == nil {
				return types.NewArray(ex.parseSpecType(name[i+1:], u), n)
			}
		}
	}
	if u != nil {
		if i := strings.Index(name, "."); i >= 0 {
			for _, imp := range u.Pkg.Types.Imports() {
				if imp.Name() == name[:i] {
					if o := imp.Scope().Lookup(name[i+1:]); o != nil {
						return o.Type()
					}
				}
			}
		} else if o := u.Pkg.Types.Scope().Lookup(name); o != nil {
			return o.Type()
		}
	}
	ex.specFail("unknown spec type %q", name)
	return nil
}

// evalSpec evaluates a contract expression in st.
func (ex *Exec) evalSpec(st *State, src string, u *Unit, where string) *Val {
	e, err := parseSpecExpr(src)
	if err != nil {
		ex.specFail("%s: cannot parse %q: %v", where, src, err)
	}
	saveU := ex.specUnit
	if u != nil {
		ex.specUnit = u
	}
	ex.specDepth++
	defer func() {
		ex.specDepth--
		ex.specUnit = saveU
		if r := recover(); r != nil {
			if se, ok := r.(specError); ok {
				panic(specError{where + ": " + se.msg})
			}
			panic(fmt.Sprintf("%s: in %q: %v", where, src, r))
		}
	}()
	return ex.expr(st, e)
}

func (ex *Exec) evalSpecBool(st *State, src string, u *Unit, where string) *Term {
	v := ex.evalSpec(st, src, u, where)
	v = ex.materialize(v, tBool)
	if v.Term == nil || v.Term.S != SBool {
		ex.specFail("%s: %q is not boolean", where, src)
	}
	return v.Term
}

func (ex *Exec) specIdent(st *State, id *ast.Ident) *Val {
	name := id.Name
	switch name {
	case "true":
		return &Val{T: tBool, Term: tTrue}
	case "false":
		return &Val{T: tBool, Term: tFalse}
	case "nil":
		return &Val{T: types.Typ[types.UntypedNil], Term: intLit(0)}
	}
	lookupLocal := func() *Val {
		if ex.specNoLocals {
			return nil
		}
		if o, ok := st.names[name]; ok {
			if v, ok := st.vars[o]; ok {
				return v
			}
		}
		return nil
	}
	if v, ok := st.bound[name]; ok && (!ex.specPreferLocals || strings.HasSuffix(name, "?")) {
		return v
	}
	if v, ok := st.ghost[name]; ok {
		return v
	}
	if ex.specPreferLocals {
		if v := lookupLocal(); v != nil {
			return v
		}
		if v, ok := st.bound[name]; ok {
			return v
		}
	} else if v := lookupLocal(); v != nil {
		return v
	}
	if u := ex.specUnit; u != nil {
		if o := u.Pkg.Types.Scope().Lookup(name); o != nil {
			switch o := o.(type) {
			case *types.Const:
				return ex.constVal(o.Val(), o.Type())
			case *types.Var:
				return ex.readGlobal(st, o)
			case *types.Func:
				return &Val{T: o.Type(), Fn: o}
			}
		}
	}
	if sf, ok := ex.W.SpecFns[name]; ok {
		return &Val{Spec: sf}
	}
	ex.specFail("unknown name %q", name)
	return nil
}

// findImport resolves an imported package by its name in the spec unit.
func (ex *Exec) findImport(name string) *types.Package {
	if ex.specUnit != nil {
		for _, imp := range ex.specUnit.Pkg.Types.Imports() {
			if imp.Name() == name {
				return imp
			}
		}
	}
	// search all loaded units
	for _, u := range ex.W.Units {
		for _, imp := range u.Pkg.Types.Imports() {
			if imp.Name() == name {
				return imp
			}
		}
		if u.Pkg.Types.Name() == name {
			return u.Pkg.Types
		}
	}
	return nil
}

func (ex *Exec) specSelector(st *State, e *ast.SelectorExpr) *Val {
	if id, ok := e.X.(*ast.Ident); ok {
		_, isBound := st.bound[id.Name]
		_, isGhost := st.ghost[id.Name]
		_, isLocal := st.names[id.Name]
		if !isBound && !isGhost && (!isLocal || ex.specNoLocals) {
			if pkg := ex.findImport(id.Name); pkg != nil {
				o := pkg.Scope().Lookup(e.Sel.Name)
				switch o := o.(type) {
				case *types.Const:
					return ex.constVal(o.Val(), o.Type())
				case *types.Var:
					return ex.readGlobal(st, o)
				case *types.Func:
					return &Val{T: o.Type(), Fn: o}
				}
				ex.specFail("unknown %s.%s", id.Name, e.Sel.Name)
			}
		}
	}
	x := ex.expr(st, e.X)
	if x.T == nil {
		ex.specFail("selector %s on untyped value", e.Sel.Name)
	}
	base, isPtr := derefType(x.T)
	// ghost field?
	if ts := ex.typeSpecFor(base); ts != nil {
		for _, g := range ts.Ghosts {
			if g.Name == e.Sel.Name {
				gt := ex.parseSpecType(g.Type, ex.unitOfType(base))
				if !isPtr {
					ex.specFail("ghost field %s on non-pointer", g.Name)
				}
				ex.guardedAccess(st, x, base, g.Name, e.Pos())
				return &Val{T: gt, Term: ex.readField(st, x.Term, base, g.Name, gt)}
			}
		}
	}
	// method?
	{
		var pkg *types.Package
		if n, ok := base.(*types.Named); ok {
			pkg = n.Obj().Pkg()
		}
		if obj, index, _ := types.LookupFieldOrMethod(x.T, true, pkg, e.Sel.Name); obj != nil {
			if fn, ok := obj.(*types.Func); ok {
				cur := x
				for _, i := range index[:len(index)-1] {
					bt, _ := derefType(cur.T)
					if st2, ok := bt.Underlying().(*types.Struct); ok {
						cur = ex.fieldStep(st, cur, st2.Field(i), e.Pos())
					}
				}
				return &Val{T: fn.Type(), Fn: fn, Recv: cur}
			}
		}
	}
	s, ok := base.Underlying().(*types.Struct)
	if !ok {
		ex.specFail("selector .%s on non-struct %s", e.Sel.Name, x.T)
	}
	f, path := findField(s, e.Sel.Name)
	if f == nil {
		ex.specFail("no field %s in %s", e.Sel.Name, base)
	}
	cur := x
	for _, pf := range path {
		cur = ex.fieldStep(st, cur, pf, e.Pos())
	}
	b2, _ := derefType(cur.T)
	ex.guardedAccess(st, cur, b2, f.Name(), e.Pos())
	return ex.fieldStep(st, cur, f, e.Pos())
}

func (ex *Exec) unitOfType(t types.Type) *Unit {
	if n, ok := t.(*types.Named); ok && n.Obj().Pkg() != nil {
		return ex.W.Units[n.Obj().Pkg().Path()]
	}
	return nil
}

// findField finds a (possibly promoted) field.
func findField(s *types.Struct, name string) (*types.Var, []*types.Var) {
	for i := 0; i < s.NumFields(); i++ {
		if s.Field(i).Name() == name {
			return s.Field(i), nil
		}
	}
	for i := 0; i < s.NumFields(); i++ {
		f := s.Field(i)
		if !f.Embedded() {
			continue
		}
		bt, _ := derefType(f.Type())
		if es, ok := bt.Underlying().(*types.Struct); ok {
			if ff, p := findField(es, name); ff != nil {
				return ff, append([]*types.Var{f}, p...)
			}
		}
	}
	return nil, nil
}

// oldState returns a view of st evaluated in its entry snapshot.
func (ex *Exec) oldView(st *State) *State {
	if st.old == nil {
		return st
	}
	v := st.clone()
	v.heaps = st.old.heaps
	// make sure heaps created later also exist in old
	for k, t := range st.heaps {
		if _, ok := v.heaps[k]; !ok {
			_ = t
		}
	}
	v.vars = map[types.Object]*Val{}
	for k, val := range st.vars {
		v.vars[k] = val
	}
	for k, val := range st.old.vars {
		v.vars[k] = val
	}
	v.ghost = map[string]*Val{}
	for k, val := range st.ghost {
		v.ghost[k] = val
	}
	for k, val := range st.old.ghost {
		v.ghost[k] = val
	}
	v.pc = nil
	v.old = st.old
	return v
}

func (ex *Exec) specCall(st *State, e *ast.CallExpr) []*Val {
	one := func(v *Val) []*Val { return []*Val{v} }
	// builtin spec functions
	if id, ok := e.Fun.(*ast.Ident); ok {
		switch id.Name {
		case "old":
			ov := ex.oldView(st)
			v := ex.expr(ov, e.Args[0])
			// facts produced while evaluating (fresh slices etc.) must be kept
			for _, p := range ov.pc {
				st.assume(p)
			}
			// heaps first touched inside old() are created in the snapshot
			for k, t := range ov.heaps {
				if _, ok := st.heaps[k]; !ok {
					st.heaps[k] = t
				}
			}
			return one(v)
		case "oldmem":
			// oldmem(e): e with the memory contents of function entry, but the
			// current values of locals, parameters and ghosts
			if st.old == nil {
				return one(ex.expr(st, e.Args[0]))
			}
			ov := st.clone()
			ov.heaps = map[string]*Term{}
			for k, t := range st.old.heaps {
				ov.heaps[k] = t
			}
			npc := len(ov.pc)
			v := ex.expr(ov, e.Args[0])
			for _, p := range ov.pc[npc:] {
				st.assume(p)
			}
			for k, t := range ov.heaps {
				if _, ok := st.heaps[k]; !ok {
					st.heaps[k] = t
				}
				if _, ok := st.old.heaps[k]; !ok {
					st.old.heaps[k] = t
				}
			}
			return one(v)
		case "len":
			x := ex.expr(st, e.Args[0])
			return one(ex.lenOf(st, x))
		case "cap":
			x := ex.expr(st, e.Args[0])
			return one(&Val{T: tInt, Term: ex.sCap(x.Term)})
		case "cond", "ite":
			c := ex.materialize(ex.expr(st, e.Args[0]), tBool)
			a, b := ex.unify(ex.expr(st, e.Args[1]), ex.expr(st, e.Args[2]))
			if isUntypedConst(a) {
				a, b = ex.materialize(a, nil), ex.materialize(b, nil)
			}
			return one(&Val{T: a.T, Term: ite(c.Term, a.Term, b.Term)})
		case "imp", "implies":
			a := ex.materialize(ex.expr(st, e.Args[0]), tBool)
			b := ex.materialize(ex.underGuard(st, a.Term, func() *Val { return ex.expr(st, e.Args[1]) }), tBool)
			return one(&Val{T: tBool, Term: implies(a.Term, b.Term)})
		case "iff":
			a := ex.materialize(ex.expr(st, e.Args[0]), tBool)
			b := ex.materialize(ex.expr(st, e.Args[1]), tBool)
			return one(&Val{T: tBool, Term: eq(a.Term, b.Term)})
		case "min", "max":
			a, b := ex.unify(ex.expr(st, e.Args[0]), ex.expr(st, e.Args[1]))
			a, b = ex.materialize(a, tInt), ex.materialize(b, tInt)
			if id.Name == "min" {
				return one(&Val{T: a.T, Term: ite(le(a.Term, b.Term), a.Term, b.Term)})
			}
			return one(&Val{T: a.T, Term: ite(ge(a.Term, b.Term), a.Term, b.Term)})
		case "forall", "exists", "forallStr", "forallRef", "existsStr", "existsRef":
			return one(ex.quantifier(st, id.Name, e))
		case "int":
			x := ex.expr(st, e.Args[0])
			x = ex.materialize(x, tInt)
			if x.Term.S == SByte {
				return one(&Val{T: tInt, Term: ex.b2i(x.Term)})
			}
			return one(&Val{T: tInt, Term: x.Term})
		case "byte":
			x := ex.expr(st, e.Args[0])
			if isUntypedConst(x) {
				return one(ex.materialize(x, tByte))
			}
			if x.Term.S == SInt {
				return one(&Val{T: tByte, Term: ex.i2b(x.Term)})
			}
			return one(&Val{T: tByte, Term: x.Term})
		case "string":
			x := ex.expr(st, e.Args[0])
			if isUntypedConst(x) {
				return one(ex.materialize(x, tString))
			}
			if x.Term.S == SStr {
				return one(&Val{T: tString, Term: x.Term})
			}
			if x.Term.S == SSlice {
				return one(&Val{T: tString, Term: ex.bytesToString(st, x.Term)})
			}
		case "mem":
			// mem(x): the byte contents of slice x as an array term (for frame clauses)
			x := ex.expr(st, e.Args[0])
			return one(&Val{T: nil, Term: sel(ex.mem(st, tByte), ex.sRef(x.Term))})
		case "sameBytes":
			// sameBytes(a, b): same length and same contents
			a := ex.expr(st, e.Args[0])
			b := ex.expr(st, e.Args[1])
			k := mk("k?", SInt)
			return one(&Val{T: tBool, Term: and(eq(ex.sLen(a.Term), ex.sLen(b.Term)),
				forall([]*Term{k}, implies(and(ge(k, intLit(0)), lt(k, ex.sLen(a.Term))),
					eq(ex.sliceElem(st, a.Term, k, tByte), ex.sliceElem(st, b.Term, k, tByte)))))})
		case "forallCell":
			// forallCell(s, p, c, body): for every cell of byte slice s, by absolute
			// position in its array (trigger: a read of that array cell through any
			// slice), with p the index within s and c the cell's value
			sv := ex.expr(st, e.Args[0])
			pn := e.Args[1].(*ast.Ident).Name
			cn := e.Args[2].(*ast.Ident).Name
			ex.nfresh++
			a := mk(fmt.Sprintf("a?%d", ex.nfresh), SInt)
			row := sel(ex.mem(st, tByte), ex.sRef(sv.Term))
			savedB := map[string]*Val{}
			savedN := map[string]types.Object{}
			for _, nm := range []string{pn, cn} {
				savedB[nm] = st.bound[nm]
				if o, ok := st.names[nm]; ok {
					savedN[nm] = o
					delete(st.names, nm)
				}
			}
			st.bound[pn] = &Val{T: tInt, Term: sub(a, ex.sOff(sv.Term))}
			st.bound[cn] = &Val{T: tByte, Term: sel(row, a)}
			npc := len(st.pc)
			ex.quantDepth++
			b := ex.materialize(ex.expr(st, e.Args[3]), tBool)
			ex.quantDepth--
			if len(st.pc) > npc {
				for _, f := range st.pc[npc:] {
					if mentionsAny(f, []*Term{a}) {
						ex.specFail("forallCell body needs per-instance definitions")
					}
				}
			}
			for _, nm := range []string{pn, cn} {
				if savedB[nm] != nil {
					st.bound[nm] = savedB[nm]
				} else {
					delete(st.bound, nm)
				}
				if o, ok := savedN[nm]; ok {
					st.names[nm] = o
				}
			}
			return one(&Val{T: tBool, Term: forall([]*Term{a},
				implies(and(ge(a, ex.sOff(sv.Term)), lt(a, add(ex.sOff(sv.Term), ex.sLen(sv.Term)))), b.Term),
				[]*Term{sel(row, a)})})
		case "unchanged":
			// unchanged(s): every byte of s (by absolute position in its array,
			// so that reads through any sub-slice match) has its entry value
			a := ex.expr(st, e.Args[0])
			k := mk("a?", SInt)
			now := sel(ex.mem(st, tByte), ex.sRef(a.Term))
			was := sel(ex.mem(ex.oldView(st), tByte), ex.sRef(a.Term))
			return one(&Val{T: tBool, Term: forall([]*Term{k},
				implies(and(ge(k, ex.sOff(a.Term)), lt(k, add(ex.sOff(a.Term), ex.sLen(a.Term)))),
					eq(sel(now, k), sel(was, k))), []*Term{sel(now, k)})})
		case "fresh":
			// fresh(x): reference allocated during this call
			x := ex.expr(st, e.Args[0])
			t := x.Term
			if t.S == SSlice {
				t = ex.sRef(t)
			}
			return one(&Val{T: tBool, Term: ge(t, ex.alloc(ex.oldView(st)))})
		case "implements":
			// implements(x, "pkg/path.Iface"): dynamic type of x implements the interface
			x := ex.expr(st, e.Args[0])
			key := strings.Trim(e.Args[1].(*ast.BasicLit).Value, "`\"")
			okT := ex.D.app("implements$"+smtName(key), SBool, ex.D.app("dyntype", SInt, x.Term))
			return one(&Val{T: tBool, Term: and(not(eq(x.Term, intLit(0))), okT)})
		case "done":
			// done(ctx): ghost done-ness of a context now
			x := ex.expr(st, e.Args[0])
			return one(&Val{T: tBool, Term: ex.ctxDone(st, x.Term)})
		case "sprintf":
			f := ex.materialize(ex.expr(st, e.Args[0]), tString)
			a := ex.expr(st, e.Args[1])
			return one(&Val{T: tString, Term: ex.sprintfModel(st, f.Term, a.Term)})
		case "onlyFreshWritten":
			// frame: every heap cell that existed at entry still has its entry value
			ov := ex.oldView(st)
			a0 := ex.alloc(ov)
			var cs []*Term
			var names []string
			for k := range st.heaps {
				names = append(names, k)
			}
			sort.Strings(names)
			r := mk("r?", SInt)
			for _, k := range names {
				if !(strings.HasPrefix(k, "H$") || strings.HasPrefix(k, "Box$") || strings.HasPrefix(k, "Mem$")) {
					continue
				}
				now := st.heaps[k]
				old, ok := ov.heaps[k]
				if !ok || old == now {
					continue
				}
				cs = append(cs, forall([]*Term{r}, implies(and(gt(r, intLit(0)), lt(r, a0)), eq(sel(now, r), sel(old, r)))))
			}
			var gnames []string
			for k := range ex.globalWrites {
				gnames = append(gnames, k)
			}
			sort.Strings(gnames)
			for _, k := range gnames {
				if old, ok := ov.heaps[k]; ok && st.heaps[k] != old {
					cs = append(cs, eq(st.heaps[k], old))
				}
			}
			return one(&Val{T: tBool, Term: and(cs...)})
		case "has":
			// has(m, k): key k is present in map m
			m := ex.expr(st, e.Args[0])
			mt, ok := m.T.Underlying().(*types.Map)
			if !ok {
				ex.specFail("has: first argument is not a map")
			}
			k := ex.coerce(st, ex.materialize(ex.expr(st, e.Args[1]), mt.Key()), mt.Key())
			return one(&Val{T: tBool, Term: ex.mapHas(st, mt, m.Term, k.Term)})
		case "sameEntries":
			// sameEntries(a, b): the two maps hold the same keys with the same values
			a := ex.expr(st, e.Args[0])
			b := ex.expr(st, e.Args[1])
			mt, ok := a.T.Underlying().(*types.Map)
			if !ok {
				ex.specFail("sameEntries: first argument is not a map")
			}
			_, _, vh, hh := ex.mapHeaps(st, mt)
			return one(&Val{T: tBool, Term: and(eq(sel(vh, a.Term), sel(vh, b.Term)), eq(sel(hh, a.Term), sel(hh, b.Term)))})
		case "writesOnlySpare":
			// writesOnlySpare(dst): the frame of an append-style function, stated
			// over every slice memory: a cell that existed at entry has its entry
			// value unless it lies in the spare capacity [len,cap) of dst as it
			// was at entry.  (Fresh arrays may be written freely.)
			ov := ex.oldView(st)
			a0 := ex.alloc(ov)
			d := ex.expr(ov, e.Args[0])
			for _, p := range ov.pc {
				st.assume(p)
			}
			dElem := types.Type(tByte)
			if sl, ok := d.T.Underlying().(*types.Slice); ok {
				dElem = sl.Elem()
			}
			dMem, _ := ex.memName(dElem)
			var cs []*Term
			var names []string
			for k := range st.heaps {
				names = append(names, k)
			}
			sort.Strings(names)
			r, a := mk("r?", SInt), mk("a?", SInt)
			for _, k := range names {
				if !(strings.HasPrefix(k, "H$") || strings.HasPrefix(k, "Box$") || strings.HasPrefix(k, "Mem$")) {
					continue
				}
				now := st.heaps[k]
				old, ok := ov.heaps[k]
				if !ok || old == now {
					continue
				}
				if k == dMem {
					lo := add(ex.sOff(d.Term), ex.sLen(d.Term))
					hi := add(ex.sOff(d.Term), ex.sCap(d.Term))
					inSpare := and(eq(r, ex.sRef(d.Term)), ge(a, lo), lt(a, hi))
					cs = append(cs, forall([]*Term{r, a},
						implies(and(gt(r, intLit(0)), lt(r, a0), not(inSpare)), eq(sel(sel(now, r), a), sel(sel(old, r), a))),
						[]*Term{sel(sel(now, r), a)}))
					continue
				}
				cs = append(cs, forall([]*Term{r}, implies(and(gt(r, intLit(0)), lt(r, a0)), eq(sel(now, r), sel(old, r)))))
			}
			var gnames []string
			for k := range ex.globalWrites {
				gnames = append(gnames, k)
			}
			sort.Strings(gnames)
			for _, k := range gnames {
				if old, ok := ov.heaps[k]; ok && st.heaps[k] != old {
					cs = append(cs, eq(st.heaps[k], old))
				}
			}
			return one(&Val{T: tBool, Term: and(cs...)})
		case "prev":
			// prev(e): e evaluated just before the statement this `after` hook follows
			if ex.prevState == nil {
				ex.specFail("prev(...) is only meaningful in an after-hook")
			}
			view := st.clone()
			view.heaps = ex.prevState.heaps
			view.vars = map[types.Object]*Val{}
			for k, v := range st.vars {
				view.vars[k] = v
			}
			for k, v := range ex.prevState.vars {
				view.vars[k] = v
			}
			view.pc = nil
			v := ex.expr(view, e.Args[0])
			for _, p := range view.pc {
				st.assume(p)
			}
			return one(v)
		case "pre":
			// pre("2", e): e evaluated in the state just before loop 2 was entered
			path := strings.Trim(e.Args[0].(*ast.BasicLit).Value, "\"")
			ps := st.loopPre[path]
			if ps == nil {
				ex.specFail("pre(%q, ...): loop not entered on this path", path)
			}
			view := st.clone()
			view.heaps = ps.heaps
			view.vars = map[types.Object]*Val{}
			for k, v := range st.vars {
				view.vars[k] = v
			}
			for k, v := range ps.vars {
				view.vars[k] = v
			}
			view.pc = nil
			v := ex.expr(view, e.Args[1])
			for _, p := range view.pc {
				st.assume(p)
			}
			return one(v)
		case "ranged":
			// ranged("1"): the value loop 1 ranges over (e.g. the pieces of a split)
			path := strings.Trim(e.Args[0].(*ast.BasicLit).Value, "\"")
			v := st.loopRanged[path]
			if v == nil {
				ex.specFail("ranged(%q): loop not entered on this path or not a slice range", path)
			}
			return one(v)
		case "offsetIn":
			// offsetIn(a, b): position of sub-slice a's first element within b
			a := ex.expr(st, e.Args[0])
			b := ex.expr(st, e.Args[1])
			return one(&Val{T: tInt, Term: sub(ex.sOff(a.Term), ex.sOff(b.Term))})
		case "mapStr":
			// mapStr(m, "key"): element of a map[string]string (possibly boxed in an interface)
			m := ex.expr(st, e.Args[0])
			k := ex.materialize(ex.expr(st, e.Args[1]), tString)
			mh := ex.heap(st, "Map$"+smtName(SStr)+"$"+smtName(SStr), arrSort(SInt, arrSort(SStr, SStr)))
			return one(&Val{T: tString, Term: sel(sel(mh, m.Term), k.Term)})
		case "disjointSpare":
			// disjointSpare(dst, src): appending to dst in place cannot touch src's bytes
			d := ex.expr(st, e.Args[0])
			s2 := ex.expr(st, e.Args[1])
			dt, stt := d.Term, s2.Term
			return one(&Val{T: tBool, Term: or(
				not(eq(ex.sRef(dt), ex.sRef(stt))),
				le(add(ex.sOff(stt), ex.sLen(stt)), add(ex.sOff(dt), ex.sLen(dt))),
				le(add(ex.sOff(dt), ex.sCap(dt)), ex.sOff(stt)))})
		case "sameArray":
			// sameArray(a, b): the two slices share their backing array
			a := ex.expr(st, e.Args[0])
			b := ex.expr(st, e.Args[1])
			return one(&Val{T: tBool, Term: and(eq(ex.sRef(a.Term), ex.sRef(b.Term)), not(eq(ex.sRef(a.Term), intLit(0))))})
		case "unboxAs":
			// unboxAs(x, T): the value of (non-reference) type T held by interface
			// value x (meaningful where x is known to hold a T); fields of a
			// struct T can then be selected: unboxAs(err, DecodeError).Line
			x := ex.expr(st, e.Args[0])
			tn := exprText(e.Args[1])
			t := ex.parseSpecType(tn, ex.specUnit)
			if t == nil {
				ex.specFail("unboxAs: unknown type %s", tn)
			}
			srt := ex.sortOf(t)
			return one(&Val{T: t, Term: ex.D.app("unbox$"+smtName(srt), srt, x.Term)})
		case "boxes":
			// boxes(x, v): interface value x holds exactly the value v
			x := ex.expr(st, e.Args[0])
			v := ex.materialize(ex.expr(st, e.Args[1]), nil)
			if v.Term.S == SInt && isRefLike(v.T) {
				return one(&Val{T: tBool, Term: eq(x.Term, v.Term)})
			}
			return one(&Val{T: tBool, Term: eq(ex.D.app("unbox$"+smtName(v.Term.S), v.Term.S, x.Term), v.Term)})
		case "unboxStr":
			x := ex.expr(st, e.Args[0])
			return one(&Val{T: tString, Term: ex.D.app("unbox$"+smtName(SStr), SStr, x.Term)})
		case "held":
			// held("Type.lock"): lock is held at this point
			txt := strings.Trim(exprText(e.Args[0]), "\"")
			_, ok := st.held[txt]
			if ok {
				return one(&Val{T: tBool, Term: tTrue})
			}
			return one(&Val{T: tBool, Term: tFalse})
		case "uf":
			// uf("name", sort-type, args...): uninterpreted function application
			name := strings.Trim(e.Args[0].(*ast.BasicLit).Value, `"`)
			rt := ex.parseSpecType(exprText(e.Args[1]), ex.specUnit)
			var args []*Term
			for _, a := range e.Args[2:] {
				v := ex.materialize(ex.expr(st, a), nil)
				if v.Term == nil {
					v = &Val{T: v.T, Term: ex.funcRef(st, v)}
				}
				args = append(args, v.Term)
			}
			return one(&Val{T: rt, Term: ex.D.app("uf$"+smtName(name), ex.sortOf(rt), args...)})
		}
	}
	fn := ex.expr(st, e.Fun)
	var args []*Val
	for _, a := range e.Args {
		args = append(args, ex.expr(st, a))
	}
	if fn.Spec != nil {
		return one(ex.applySpecFn(st, fn.Spec, args))
	}
	if fn.Fn != nil {
		// library / repo function used in a spec: pure uninterpreted application
		if fn.Recv != nil {
			args = append([]*Val{fn.Recv}, args...)
		}
		if calleeKey(fn.Fn) == "errors.Is" {
			return one(&Val{T: tBool, Term: ex.errorsIs(args[0].Term, args[1].Term)})
		}
		return one(ex.pureApp(st, fn.Fn, args))
	}
	if fn.Note == "type" {
		// conversion to a named type
		x := ex.coerce(st, args[0], fn.T)
		return one(x)
	}
	ex.specFail("cannot call %s in a spec", exprText(e.Fun))
	return nil
}

func exprText(e ast.Expr) string {
	var sb strings.Builder
	writeExpr(&sb, e)
	return sb.String()
}

func writeExpr(sb *strings.Builder, e ast.Expr) {
	switch e := e.(type) {
	case *ast.Ident:
		sb.WriteString(e.Name)
	case *ast.SelectorExpr:
		writeExpr(sb, e.X)
		sb.WriteByte('.')
		sb.WriteString(e.Sel.Name)
	case *ast.StarExpr:
		sb.WriteByte('*')
		writeExpr(sb, e.X)
	case *ast.ArrayType:
		sb.WriteString("[]")
		writeExpr(sb, e.Elt)
	case *ast.BasicLit:
		sb.WriteString(e.Value)
	case *ast.ParenExpr:
		sb.WriteByte('(')
		writeExpr(sb, e.X)
		sb.WriteByte(')')
	case *ast.UnaryExpr:
		sb.WriteString(e.Op.String())
		writeExpr(sb, e.X)
	case *ast.CallExpr:
		writeExpr(sb, e.Fun)
		sb.WriteByte('(')
		for i, a := range e.Args {
			if i > 0 {
				sb.WriteString(", ")
			}
			writeExpr(sb, a)
		}
		sb.WriteByte(')')
	case *ast.IndexExpr:
		writeExpr(sb, e.X)
		sb.WriteByte('[')
		writeExpr(sb, e.Index)
		sb.WriteByte(']')
	case *ast.BinaryExpr:
		writeExpr(sb, e.X)
		sb.WriteString(" " + e.Op.String() + " ")
		writeExpr(sb, e.Y)
	default:
		fmt.Fprintf(sb, "<%T>", e)
	}
}

// lenOf: len of slice/string/array.
func (ex *Exec) lenOf(st *State, x *Val) *Val {
	if isUntypedConst(x) {
		x = ex.materialize(x, nil)
	}
	switch x.Term.S {
	case SSlice:
		return &Val{T: tInt, Term: ex.sLen(x.Term)}
	case SStr:
		return &Val{T: tInt, Term: ex.strLen(x.Term)}
	}
	if a, ok := x.T.Underlying().(*types.Array); ok {
		return &Val{T: tInt, Term: intLit(a.Len())}
	}
	if _, ok := x.T.Underlying().(*types.Map); ok {
		return &Val{T: tInt, Term: ex.D.app("map.len", SInt, x.Term)}
	}
	if _, ok := x.T.Underlying().(*types.Chan); ok {
		return &Val{T: tInt, Term: ex.D.app("chan.len", SInt, x.Term)}
	}
	ex.specFail("len of %s (sort %s, term %s)", x.T, x.Term.S, x.Term)
	return nil
}

func (ex *Exec) quantifier(st *State, kind string, e *ast.CallExpr) *Val {
	if len(e.Args) < 2 {
		ex.specFail("%s needs (var, [cond,] body)", kind)
	}
	var vars []string
	switch a := e.Args[0].(type) {
	case *ast.Ident:
		vars = []string{a.Name}
	case *ast.CallExpr: // vars(i, j)
		for _, x := range a.Args {
			vars = append(vars, x.(*ast.Ident).Name)
		}
	default:
		ex.specFail("%s: first argument must be a variable name", kind)
	}
	vt, vs := types.Type(tInt), SInt
	if strings.HasSuffix(kind, "Str") {
		vt, vs = tString, SStr
	} else if strings.HasSuffix(kind, "Ref") {
		vt, vs = tAny, SInt
	}
	saved := map[string]*Val{}
	var bound []*Term
	for _, v := range vars {
		ex.nfresh++
		leaf := mk(fmt.Sprintf("%s?%d", v, ex.nfresh), vs)
		bound = append(bound, leaf)
		if old, ok := st.bound[v]; ok {
			saved[v] = old
		} else {
			saved[v] = nil
		}
		st.bound[v+"?"] = nil
		delete(st.bound, v+"?")
		st.bound[v] = &Val{T: vt, Term: leaf}
	}
	// quantified variables shadow locals: use a name that wins lookup
	shadow := map[string]types.Object{}
	for _, v := range vars {
		if o, ok := st.names[v]; ok {
			shadow[v] = o
			delete(st.names, v)
		}
	}
	args := e.Args[1:]
	var pats [][]*Term
	// trailing trig(...) arguments: alternative patterns (each may be a multi-pattern)
	for len(args) > 0 {
		c, ok := args[len(args)-1].(*ast.CallExpr)
		if !ok {
			break
		}
		id, ok := c.Fun.(*ast.Ident)
		if !ok || id.Name != "trig" {
			break
		}
		var p []*Term
		for _, a := range c.Args {
			p = append(p, ex.materialize(ex.expr(st, a), nil).Term)
		}
		pats = append(pats, p)
		args = args[:len(args)-1]
	}
	n := len(st.pc)
	var body *Term
	ex.quantDepth++
	defer func() { ex.quantDepth-- }()
	if len(args) == 2 {
		c := ex.materialize(ex.expr(st, args[0]), tBool)
		b := ex.materialize(ex.expr(st, args[1]), tBool)
		if strings.HasPrefix(kind, "forall") {
			body = implies(c.Term, b.Term)
		} else {
			body = and(c.Term, b.Term)
		}
	} else {
		b := ex.materialize(ex.expr(st, args[0]), tBool)
		body = b.Term
	}
	// facts added while evaluating the body mention bound variables only if
	// they define fresh symbols per instance; such facts cannot be hoisted.
	if len(st.pc) > n {
		extra := st.pc[n:]
		st.pc = st.pc[:n:n]
		var keep []*Term
		for _, f := range extra {
			if mentionsAny(f, bound) {
				ex.specFail("%s body needs per-instance definitions (slice expressions are not allowed inside quantifiers)", kind)
			}
			keep = append(keep, f)
		}
		for _, f := range keep {
			st.assume(f)
		}
	}
	for _, v := range vars {
		if saved[v] != nil {
			st.bound[v] = saved[v]
		} else {
			delete(st.bound, v)
		}
	}
	for v, o := range shadow {
		st.names[v] = o
	}
	if strings.HasPrefix(kind, "forall") {
		return &Val{T: tBool, Term: forall(bound, body, pats...)}
	}
	return &Val{T: tBool, Term: exists(bound, body)}
}

func mentionsAny(t *Term, leaves []*Term) bool {
	if len(t.Args) == 0 && t.Bound == nil {
		for _, l := range leaves {
			if l.Op == t.Op {
				return true
			}
		}
		return false
	}
	for _, a := range t.Args {
		if mentionsAny(a, leaves) {
			return true
		}
	}
	return false
}

// pureAppN is pureApp for functions with several results (one UF per result).
func (ex *Exec) pureAppN(st *State, fn *types.Func, args []*Val) []*Val {
	sig := fn.Type().(*types.Signature)
	var ts []*Term
	for _, a := range args {
		a = ex.materialize(a, nil)
		if a.Term == nil {
			a = &Val{T: a.T, Term: ex.funcRef(st, a)}
		}
		ts = append(ts, a.Term)
	}
	name := "pure$" + smtName(calleeKey(fn))
	for _, t := range ts {
		name += "$" + sortTag(t.S)
	}
	var out []*Val
	for i := 0; i < sig.Results().Len(); i++ {
		rt := sig.Results().At(i).Type()
		v := &Val{T: rt, Term: ex.D.app(fmt.Sprintf("%s.r%d", name, i), ex.sortOf(rt), ts...)}
		ex.wf(st, v)
		out = append(out, v)
	}
	ex.W.Trusted["pure function (deterministic, side-effect free, modelled as uninterpreted): "+calleeKey(fn)] = true
	return out
}

// pureApp models a function as an uninterpreted function of its arguments.
func (ex *Exec) pureApp(st *State, fn *types.Func, args []*Val) *Val {
	sig := fn.Type().(*types.Signature)
	if sig.Results().Len() > 1 {
		return ex.pureAppN(st, fn, args)[0]
	}
	var rt types.Type = tBool
	if sig.Results().Len() >= 1 {
		rt = sig.Results().At(0).Type()
	}
	var ts []*Term
	for _, a := range args {
		a = ex.materialize(a, nil)
		if a.Term == nil {
			a = &Val{T: a.T, Term: ex.funcRef(st, a)}
		}
		ts = append(ts, a.Term)
	}
	name := "pure$" + smtName(calleeKey(fn))
	for _, t := range ts {
		name += "$" + sortTag(t.S)
	}
	v := &Val{T: rt, Term: ex.D.app(name, ex.sortOf(rt), ts...)}
	ex.W.Trusted["pure function (deterministic, side-effect free, modelled as uninterpreted): "+calleeKey(fn)] = true
	return v
}

func sortTag(s string) string {
	switch s {
	case SInt:
		return "i"
	case SBool:
		return "b"
	case SByte:
		return "y"
	case SStr:
		return "s"
	case SSlice:
		return "l"
	}
	return smtName(s)
}

// calleeKey: stable name for a function or method, e.g. "bytes.Split",
// "sync.Mutex.Lock", "io.Reader.Read", "iobroker.Broker.connect".
func calleeKey(fn *types.Func) string {
	sig := fn.Type().(*types.Signature)
	pkg := ""
	if fn.Pkg() != nil {
		pkg = fn.Pkg().Name()
		// golang.org/x/exp/{maps,slices} are not the standard packages of
		// the same name (maps.Keys returns a slice there, an iterator here)
		if strings.HasPrefix(fn.Pkg().Path(), "golang.org/x/exp/") {
			pkg = "xexp" + pkg
		}
	}
	if r := sig.Recv(); r != nil {
		t := r.Type()
		if p, ok := t.(*types.Pointer); ok {
			t = p.Elem()
		}
		if n, ok := t.(*types.Named); ok {
			if n.Obj().Pkg() != nil {
				pkg = n.Obj().Pkg().Name()
			}
			return pkg + "." + n.Obj().Name() + "." + fn.Name()
		}
		if _, ok := t.Underlying().(*types.Interface); ok {
			return pkg + ".<iface>." + fn.Name()
		}
		return pkg + "." + fn.Name()
	}
	return pkg + "." + fn.Name()
}

// ---------------------------------------------------------------------
// spec functions

type specFnInfo struct {
	heapParams []string
	resT       types.Type
}

func (ex *Exec) ensureSpecFn(sf *SpecFunc) *specFnInfo {
	if info, ok := ex.specFnInfos[sf.Name]; ok {
		return info
	}
	u := ex.unitForFile(sf.File)
	st := ex.newBareState()
	st.specDef = map[string]*Term{}
	var pnames, psorts []string
	for _, p := range sf.Params {
		pt := ex.parseSpecType(p.Type, u)
		leaf := mk("p$"+p.Name, ex.sortOf(pt))
		v := &Val{T: pt, Term: leaf}
		pnames = append(pnames, leaf.Op)
		psorts = append(psorts, leaf.S)
		if sl, ok := pt.Underlying().(*types.Slice); ok {
			// the backing array of a slice parameter is passed explicitly, so
			// that the value depends on that array only, not on the whole memory
			arr := mk("p$"+p.Name+"$arr", arrSort(SInt, ex.sortOf(sl.Elem())))
			v.Arr = arr
			pnames = append(pnames, arr.Op)
			psorts = append(psorts, arr.S)
		}
		st.bound[p.Name] = v
	}
	rt := ex.parseSpecType(sf.Res, u)
	saveNoLoc := ex.specNoLocals
	ex.specNoLocals = true
	v := ex.evalSpec(st, sf.Body, u, fmt.Sprintf("%s:%d spec %s", sf.File, sf.Line, sf.Name))
	ex.specNoLocals = saveNoLoc
	v = ex.coerce(st, ex.materialize(v, rt), rt)
	if len(st.pc) > 0 {
		ex.specFail("spec %s: body needs auxiliary definitions (not a closed form)", sf.Name)
	}
	info := &specFnInfo{resT: rt}
	var hn []string
	for k := range st.specDef {
		hn = append(hn, k)
	}
	sort.Strings(hn)
	for _, k := range hn {
		info.heapParams = append(info.heapParams, k)
		pnames = append(pnames, st.specDef[k].Op)
		psorts = append(psorts, st.specDef[k].S)
	}
	// declared, with its definition as an axiom triggered on applications:
	// the function stays a term (usable in triggers) and is unfolded on demand
	name := "spec$" + sf.Name
	ex.D.declare(name, psorts, ex.sortOf(rt))
	var bound []*Term
	sub := map[string]*Term{}
	for i, pn := range pnames {
		b := mk(pn+"?", psorts[i])
		bound = append(bound, b)
		sub[pn] = b
	}
	app := mk(name, ex.sortOf(rt), bound...)
	ex.D.axiom("def "+sf.Name, forall(bound, eq(app, subst(v.Term, sub)), []*Term{app}))
	ex.specFnInfos[sf.Name] = info
	return info
}

func (ex *Exec) unitForFile(file string) *Unit {
	for _, u := range ex.W.Units {
		if u.Specs != nil && u.Specs.Path == file {
			return u
		}
	}
	return ex.U
}

func (ex *Exec) applySpecFn(st *State, sf *SpecFunc, args []*Val) *Val {
	info := ex.ensureSpecFn(sf)
	if len(args) != len(sf.Params) {
		ex.specFail("spec %s: want %d arguments, got %d", sf.Name, len(sf.Params), len(args))
	}
	u := ex.unitForFile(sf.File)
	var ts []*Term
	for i, a := range args {
		pt := ex.parseSpecType(sf.Params[i].Type, u)
		arr := a.Arr
		a = ex.coerce(st, ex.materialize(a, pt), pt)
		ts = append(ts, a.Term)
		if sl, ok := pt.Underlying().(*types.Slice); ok {
			if arr == nil {
				arr = sel(ex.mem(st, sl.Elem()), ex.sRef(a.Term))
			}
			ts = append(ts, arr)
		}
	}
	for _, h := range info.heapParams {
		srt := ex.heapSorts[h]
		ts = append(ts, ex.heap(st, h, srt))
	}
	return &Val{T: info.resT, Term: mk("spec$"+sf.Name, ex.sortOf(info.resT), ts...)}
}

func (ex *Exec) newBareState() *State {
	return &State{
		vars: map[types.Object]*Val{}, names: map[string]types.Object{}, ghost: map[string]*Val{},
		heaps: map[string]*Term{}, held: map[string]*lockHeld{}, lastUnlock: map[string]*State{}, bound: map[string]*Val{},
		frames: []*Frame{{}},
	}
}

// ---------------------------------------------------------------------
// ghost statements

var stmtCache = map[string][]ast.Stmt{}

func parseGhostStmts(src string) ([]ast.Stmt, error) {
	if s, ok := stmtCache[src]; ok {
		return s, nil
	}
	e, err := parser.ParseExpr("func(){" + src + "}")
	if err != nil {
		return nil, err
	}
	body := e.(*ast.FuncLit).Body.List
	stmtCache[src] = body
	return body, nil
}

// runGhost executes ghost statements on every given state.
func (ex *Exec) runGhost(st *State, src string, u *Unit, where string, props []string) {
	stmts, err := parseGhostStmts(src)
	if err != nil {
		ex.specFail("%s: cannot parse ghost code %q: %v", where, src, err)
	}
	saveU := ex.specUnit
	if u != nil {
		ex.specUnit = u
	}
	saveP := ex.curHookProps
	if len(props) > 0 {
		ex.curHookProps = props
	}
	savePL := ex.specPreferLocals
	ex.specPreferLocals = true
	ex.specDepth++
	saveGE := ex.ghostExec
	ex.ghostExec = true
	defer func() {
		ex.ghostExec = saveGE
		ex.specDepth--
		ex.specUnit = saveU
		ex.curHookProps = saveP
		ex.specPreferLocals = savePL
		if r := recover(); r != nil {
			if se, ok := r.(specError); ok {
				panic(specError{where + ": " + se.msg})
			}
			panic(fmt.Sprintf("%s: in ghost code %q: %v", where, src, r))
		}
	}()
	for _, s := range stmts {
		ex.ghostStmt(st, s, where)
	}
}

func (ex *Exec) ghostStmt(st *State, s ast.Stmt, where string) {
	switch s := s.(type) {
	case *ast.AssignStmt:
		if len(s.Lhs) != 1 || len(s.Rhs) != 1 {
			ex.specFail("ghost assignment must be single")
		}
		v := ex.expr(st, s.Rhs[0])
		ex.ghostAssign(st, s.Lhs[0], v)
	case *ast.IncDecStmt:
		cur := ex.expr(st, s.X)
		one := intLit(1)
		if s.Tok == token.DEC {
			one = intLit(-1)
		}
		ex.ghostAssign(st, s.X, &Val{T: cur.T, Term: add(cur.Term, one)})
	case *ast.IfStmt:
		c := ex.materialize(ex.expr(st, s.Cond), tBool).Term
		// execute both branches on copies and merge with ite
		a := st.clone()
		a.pc = append(a.pc, c)
		for _, x := range s.Body.List {
			ex.ghostStmt(a, x, where)
		}
		b := st.clone()
		b.pc = append(b.pc, not(c))
		if s.Else != nil {
			switch els := s.Else.(type) {
			case *ast.BlockStmt:
				for _, x := range els.List {
					ex.ghostStmt(b, x, where)
				}
			case *ast.IfStmt:
				ex.ghostStmt(b, els, where)
			}
		}
		ex.mergeGhost(st, c, a, b)
	case *ast.ExprStmt:
		call, ok := s.X.(*ast.CallExpr)
		if !ok {
			ex.specFail("unsupported ghost statement")
		}
		id, _ := call.Fun.(*ast.Ident)
		if id == nil {
			ex.specFail("unsupported ghost call")
		}
		switch id.Name {
		case "assert":
			label := "assert"
			if len(call.Args) > 1 {
				label = strings.Trim(call.Args[1].(*ast.BasicLit).Value, `"`)
			}
			if len(call.Args) < 2 {
				call.Args = append(call.Args, &ast.BasicLit{Kind: token.STRING, Value: `"assert"`})
			}
			// assert(e, "label", "from1", "from2", ...): the further strings name
			// earlier assertions/invariants; the proof is first tried from the
			// quantifier-free context plus exactly those facts (small, stable query)
			var only []string
			for _, a := range call.Args[2:] {
				if bl, ok := a.(*ast.BasicLit); ok {
					only = append(only, strings.Trim(bl.Value, `"`))
				}
			}
			// an assertion that names a program variable which does not exist
			// (yet) at the event it is attached to cannot hold: it is reported
			// as that assertion failing, not as a contract that no longer binds
			var g *Term
			func() {
				defer func() {
					if r := recover(); r != nil {
						if se, ok := r.(specError); ok && strings.HasPrefix(se.msg, "unknown name") {
							ex.obligeAST("assert", label, token.NoPos, false,
								fmt.Sprintf("%s: the assertion %q refers to a variable that is not defined at this event (%s)", where, label, se.msg), nil)
							return
						}
						panic(r)
					}
				}()
				g = ex.materialize(ex.expr(st, call.Args[0]), tBool).Term
			}()
			if g == nil {
				break
			}
			ex.specDepth--
			ex.curOnly = only
			ex.oblige(st, "assert", label, token.NoPos, g, nil)
			ex.curOnly = nil
			ex.specDepth++
			st.assume(g)
			ex.tagAssert(g, label)
		case "takes":
			// takes("lock name"): the event this monitor is attached to takes
			// (and releases) that lock - subject to the declared lock order
			for _, a := range call.Args {
				if bl, ok := a.(*ast.BasicLit); ok {
					ln := strings.Trim(bl.Value, `"`)
					ex.W.Trusted["`takes`: a monitor of "+ex.FName+" declares that the event it is attached to takes "+ln+" (a statement about the library behind that event)"] = true
					ex.lockOrderCheck(st, ln, token.NoPos)
				}
			}
		case "assume":
			g := ex.materialize(ex.expr(st, call.Args[0]), tBool).Term
			st.assume(g)
			ex.W.Trusted[fmt.Sprintf("assume in ghost code (%s): %s", where, exprText(call.Args[0]))] = true
		default:
			ex.specFail("unsupported ghost call %s", id.Name)
		}
	case *ast.EmptyStmt:
	default:
		ex.specFail("unsupported ghost statement %T", s)
	}
}

func (ex *Exec) ghostAssign(st *State, lhs ast.Expr, v *Val) {
	switch l := lhs.(type) {
	case *ast.Ident:
		old, ok := st.ghost[l.Name]
		if !ok {
			ex.specFail("assignment to undeclared ghost %q", l.Name)
		}
		v = ex.coerce(st, ex.materialize(v, old.T), old.T)
		st.ghost[l.Name] = v
	case *ast.SelectorExpr:
		x := ex.expr(st, l.X)
		base, isPtr := derefType(x.T)
		if !isPtr {
			ex.specFail("ghost field assignment through non-pointer")
		}
		ts := ex.typeSpecFor(base)
		if ts != nil {
			for _, g := range ts.Ghosts {
				if g.Name == l.Sel.Name {
					gt := ex.parseSpecType(g.Type, ex.unitOfType(base))
					v = ex.coerce(st, ex.materialize(v, gt), gt)
					ex.guardedAccess(st, x, base, g.Name, l.Pos())
					ex.writeField(st, x.Term, base, g.Name, gt, v.Term)
					return
				}
			}
		}
		ex.specFail("ghost code may only assign ghost fields (got .%s)", l.Sel.Name)
	default:
		ex.specFail("unsupported ghost assignment target")
	}
}

// mergeGhost merges the effects of two ghost branches back into st.
func (ex *Exec) mergeGhost(st *State, c *Term, a, b *State) {
	for k := range st.ghost {
		va, vb := a.ghost[k], b.ghost[k]
		if va.Term != vb.Term {
			st.ghost[k] = &Val{T: va.T, Term: ite(c, va.Term, vb.Term)}
		}
	}
	keys := map[string]bool{}
	for k := range a.heaps {
		keys[k] = true
	}
	for k := range b.heaps {
		keys[k] = true
	}
	for k := range keys {
		ha, hb := a.heaps[k], b.heaps[k]
		initial := func() *Term {
			if t := st.heaps[k]; t != nil {
				return t
			}
			return ex.D.konst(k+"@0", ex.heapSorts[k])
		}
		if ha == nil {
			ha = initial()
		}
		if hb == nil {
			hb = initial()
		}
		if ha == hb {
			st.heaps[k] = ha
		} else {
			st.heaps[k] = ite(c, ha, hb)
		}
	}
	// facts: keep guarded
	n := len(st.pc)
	var extra []*Term
	for _, f := range a.pc[n+1:] {
		extra = append(extra, implies(c, f))
	}
	for _, f := range b.pc[n+1:] {
		extra = append(extra, implies(not(c), f))
	}
	st.pc = append(st.pc, extra...)
}

var _ = constant.MakeBool
