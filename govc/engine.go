package main

// engine.go - verification context, symbolic state, values, heaps, obligations.

import (
	"fmt"
	"go/ast"
	"go/constant"
	"go/token"
	"go/types"
	"sort"
	"strings"

	"golang.org/x/tools/go/packages"
)

// Val is a symbolic Go value: exactly one SMT term (or a constant, closure,
// function reference or tuple).
type Val struct {
	T     types.Type
	Term  *Term
	Const constant.Value // untyped constant (spec expressions)
	Lit   *ast.FuncLit   // closure
	LitEx *Exec          // executor (package) the literal belongs to
	Fn    *types.Func    // function / method reference
	Recv  *Val           // bound receiver for method values
	Tuple []*Val
	Spec  *SpecFunc // reference to a spec function (callee position)
	Boxed bool      // pointer to a heap-allocated struct local standing for the local itself
	Arr   *Term     // for slice parameters of spec functions: the backing array, passed explicitly
	// provenance hints (for diagnostics)
	Note string
}

var (
	tInt    = types.Typ[types.Int]
	tBool   = types.Typ[types.Bool]
	tByte   = types.Typ[types.Uint8]
	tString = types.Typ[types.String]
	tBytes  = types.NewSlice(types.Typ[types.Uint8])
	tStrs   = types.NewSlice(types.Typ[types.String])
	tErr    = types.Universe.Lookup("error").Type()
	tAny    = types.NewInterfaceType(nil, nil)
)

// Obligation is one named proof obligation (possibly several path queries).
type Obligation struct {
	Name    string // pkg.Func/kind@anchor
	Kind    string
	Func    string
	Props   []string
	Pos     string
	Queries []*Query
	Backend string // "smt" or "ast"
	// for ast-checked obligations
	ASTOK  bool
	ASTMsg string
	// results
	Verdict string // discharged | counterexample | undischarged
	Solver  string
	Ms      int64
	Detail  string
	Model   map[string]string
	IsCanary bool // must NOT be provable (vacuity guard)
	IsReach  bool // must be satisfiable
	failScript string
}

type Query struct {
	Hyps   []*Term
	Goal   *Term
	Path   string
	Decls  *Decls
	Vars   []string // model variables of interest
	Slices []modelSlice
	Only   []string // labels: try the proof from the QF context plus these facts first
}

// modelSlice is a []byte parameter as it was at function entry.
type modelSlice struct {
	Name string
	S    *Term // the slice value
	Mem  *Term // byte memory at entry
}

// Unit is everything known about one loaded package.
type Unit struct {
	Pkg    *packages.Package
	Specs  *ContractFile
	Short  string // short package name
	Funcs  map[string]*ast.FuncDecl
	FSpecs map[string]*FuncSpec
	TSpecs map[string]*TypeSpec
}

// World is the set of loaded packages plus library specs.
type World struct {
	Fset     *token.FileSet
	Units    map[string]*Unit // by package path
	Lib      *ContractFile
	LibFuncs map[string]*FuncSpec
	SpecFns  map[string]*SpecFunc // all spec functions (library + packages), by name
	Lemmas   map[string]*Lemma
	Trusted  map[string]bool // trusted-base notes collected during a run
	Abstr    map[string]bool // abstracted calls
	Unsup    map[string]bool // unsupported constructs encountered
	roMaps    map[types.Object]*roMap
	LockOrder map[[2]string]bool
	addrTaken map[*types.Var]bool
}

func (w *World) note(m map[string]bool, s string) { m[s] = true }

// Exec verifies one function (and closures inlined into it).
type Exec struct {
	W     *World
	U     *Unit
	D     *Decls
	Info  *types.Info
	FSpec *FuncSpec
	FName string // pkgshort.Func
	Props []string
	Obs   map[string]*Obligation
	ObOrd []string
	nfresh int
	fieldIDs map[string]int
	strLits  map[string]*Term
	paths    int
	maxPaths int
	loopCount []int // stack for loop ordinal paths
	specDefs map[string]bool // spec functions already defined in D
	modelVars []string
	entryAlloc *Term // allocation pointer at function entry
	instSig    *types.Signature
	inlining   map[string]bool // contract-less helpers currently being inlined
	curOnly    []string // labels of the facts the next obligation is to be proved from
	returnOrds map[*ast.ReturnStmt]int
	// byte-slice parameters at function entry (for projecting a model onto inputs)
	modelSlices []modelSlice
	curHookProps []string
	safety bool
	curPath string
	lemmasUsed map[string]bool
	specDepth int
	specUnit *Unit
	specNoLocals bool
	specPreferLocals bool
	specFnInfos map[string]*specFnInfo
	heapSorts map[string]string
	variadicElems map[string][]*Val
	siteOrds map[string]map[token.Pos]int
	callSites map[string]map[token.Pos]int
	splitInfo map[string]*splitInfo
	unlockOrd map[string]int
	unlockSites map[token.Pos]string
	constructing map[string]bool
	globalWrites map[string]bool
	locksTaken   map[string]bool
	inlinedBodies []ast.Node
	anchorHit map[*Hook]bool
	loopHit map[string]bool
	ghostConst map[string]bool
	hookDepth int
	hookPos token.Pos
	inlineDepth int
	ghostExec bool
	bodyHash string
	prevState *State // state before the statement an `after` hook is attached to
	clipped map[string]bool // slice terms known to have cap == len
	hypTags map[*Term]string
	assertTags map[*Term]string
	contentStrings bool
	quantDepth int
	exitAfterHooks bool
	boxed map[types.Object]bool
	selHasDone *bool
	unitBody ast.Node
	entryState *State
	loopPaths map[ast.Stmt]string
}

type deferred struct {
	call *ast.CallExpr
	fn   *Val
	args []*Val
	ex   *Exec
}

type lockHeld struct {
	snap *State // state at Lock (for two-state guarantee)
	recv *Term
	ts   *TypeSpec
	ls   *LockSpec
}

type Frame struct {
	defers  []*deferred
	results []types.Object // named results
	sig     *types.Signature
}

// State is a symbolic state on one path.
type State struct {
	vars   map[types.Object]*Val
	names  map[string]types.Object
	ghost  map[string]*Val
	heaps  map[string]*Term
	pc     []*Term
	frames []*Frame
	held   map[string]*lockHeld
	lastUnlock map[string]*State // state at most recent Unlock per lock key (for rely)
	old    *State
	bound  map[string]*Val // spec-bound names (params by contract name, quantifier vars)
	path   []string
	dead   bool
	groups map[string][]*groupDelta
	loopPre map[string]*State
	loopRanged map[string]*Val // value ranged over by each entered loop
	specDef map[string]*Term // non-nil while translating a spec function body: heaps become parameters
}

func (s *State) clone() *State {
	n := &State{
		vars:   make(map[types.Object]*Val, len(s.vars)),
		names:  make(map[string]types.Object, len(s.names)),
		ghost:  make(map[string]*Val, len(s.ghost)),
		heaps:  make(map[string]*Term, len(s.heaps)),
		pc:     append([]*Term(nil), s.pc...),
		held:   make(map[string]*lockHeld, len(s.held)),
		lastUnlock: make(map[string]*State, len(s.lastUnlock)),
		old:    s.old,
		bound:  make(map[string]*Val, len(s.bound)),
		path:   append([]string(nil), s.path...),
		dead:   s.dead,
		specDef: s.specDef,
		groups: s.groups,
		loopPre: s.loopPre, loopRanged: s.loopRanged,
	}
	for k, v := range s.vars {
		n.vars[k] = v
	}
	for k, v := range s.names {
		n.names[k] = v
	}
	for k, v := range s.ghost {
		n.ghost[k] = v
	}
	for k, v := range s.heaps {
		n.heaps[k] = v
	}
	for k, v := range s.held {
		n.held[k] = v
	}
	for k, v := range s.lastUnlock {
		n.lastUnlock[k] = v
	}
	for k, v := range s.bound {
		n.bound[k] = v
	}
	for _, f := range s.frames {
		nf := &Frame{defers: append([]*deferred(nil), f.defers...), results: f.results, sig: f.sig}
		n.frames = append(n.frames, nf)
	}
	return n
}

func (s *State) assume(t *Term) {
	if t == nil || isTrue(t) {
		return
	}
	if t.Op == "and" {
		for _, a := range t.Args {
			s.assume(a)
		}
		return
	}
	s.pc = append(s.pc, t)
}

func (s *State) frame() *Frame { return s.frames[len(s.frames)-1] }

// ---------------------------------------------------------------------

func (ex *Exec) fresh(prefix, srt string) *Term {
	ex.nfresh++
	name := fmt.Sprintf("%s!%d", smtName(prefix), ex.nfresh)
	return ex.D.konst(name, srt)
}

func (ex *Exec) fieldID(key string) int {
	if id, ok := ex.fieldIDs[key]; ok {
		return id
	}
	id := len(ex.fieldIDs) + 1
	ex.fieldIDs[key] = id
	return id
}

func (ex *Exec) unsupported(pos token.Pos, what string) {
	ex.W.Unsup[fmt.Sprintf("%s: %s", ex.posStr(pos), what)] = true
}

func (ex *Exec) posStr(pos token.Pos) string {
	if !pos.IsValid() {
		return "?"
	}
	p := ex.W.Fset.Position(pos)
	fn := p.Filename
	if i := strings.Index(fn, "/repo/"); i >= 0 {
		fn = fn[i+6:]
	}
	return fmt.Sprintf("%s:%d", fn, p.Line)
}

// ---------------------------------------------------------------------
// Sorts of Go types

func typeKey(t types.Type) string {
	return smtName(types.TypeString(t, func(p *types.Package) string { return p.Path() }))
}

func (ex *Exec) sortOf(t types.Type) string {
	if t == nil {
		return SInt
	}
	switch u := t.Underlying().(type) {
	case *types.Basic:
		switch {
		case u.Kind() == types.Bool || u.Kind() == types.UntypedBool:
			return SBool
		case u.Kind() == types.Uint8:
			return SByte
		case u.Info()&types.IsInteger != 0:
			return SInt
		case u.Info()&types.IsString != 0:
			return SStr
		case u.Info()&types.IsFloat != 0:
			return SInt // unsupported; opaque
		case u.Kind() == types.UntypedNil || u.Kind() == types.UnsafePointer:
			return SInt
		}
		return SInt
	case *types.Slice:
		return SSlice
	case *types.Array:
		return arrSort(SInt, ex.sortOf(u.Elem()))
	case *types.Struct:
		s := "S$" + typeKey(t)
		if len(s) > 120 {
			s = fmt.Sprintf("S$anon%x", hashStr(s))
		}
		ex.D.sort(s)
		return s
	case *types.Pointer, *types.Interface, *types.Signature, *types.Chan, *types.Map:
		return SInt
	case *types.Tuple:
		return SInt
	}
	return SInt
}

func hashStr(s string) uint32 {
	var h uint32 = 2166136261
	for i := 0; i < len(s); i++ {
		h ^= uint32(s[i])
		h *= 16777619
	}
	return h
}

func isByteSlice(t types.Type) bool {
	s, ok := t.Underlying().(*types.Slice)
	if !ok {
		return false
	}
	b, ok := s.Elem().Underlying().(*types.Basic)
	return ok && b.Kind() == types.Uint8
}

func isString(t types.Type) bool {
	b, ok := t.Underlying().(*types.Basic)
	return ok && b.Info()&types.IsString != 0
}

func isRefLike(t types.Type) bool {
	switch u := t.Underlying().(type) {
	case *types.Pointer, *types.Interface, *types.Signature, *types.Chan, *types.Map:
		return true
	case *types.Basic:
		return u.Kind() == types.UntypedNil || u.Kind() == types.UnsafePointer
	}
	return false
}

func isUnsigned(t types.Type) bool {
	b, ok := t.Underlying().(*types.Basic)
	return ok && b.Info()&types.IsUnsigned != 0
}

// zero returns the zero value of a type.
func (ex *Exec) zero(t types.Type) *Val {
	srt := ex.sortOf(t)
	switch srt {
	case SBool:
		return &Val{T: t, Term: tFalse}
	case SInt:
		return &Val{T: t, Term: intLit(0)}
	case SByte:
		return &Val{T: t, Term: byteLit(0)}
	case SStr:
		return &Val{T: t, Term: ex.strEmpty()}
	case SSlice:
		return &Val{T: t, Term: ex.nilSlice()}
	}
	if st, ok := t.Underlying().(*types.Struct); ok {
		// fresh struct value with all fields zero
		v := ex.fresh("zero."+shortType(t), srt)
		_ = st
		return &Val{T: t, Term: v, Note: "zero"}
	}
	if a, ok := t.Underlying().(*types.Array); ok {
		// constant array of zeros
		z := ex.zero(a.Elem())
		return &Val{T: t, Term: mk("(as const "+srt+")", srt, z.Term)}
	}
	return &Val{T: t, Term: ex.fresh("zero", srt)}
}

func shortType(t types.Type) string {
	return types.TypeString(t, func(p *types.Package) string { return p.Name() })
}

// structZeroFacts returns the field equations for a zero struct value.
func (ex *Exec) structFieldsZero(st *State, v *Val, except map[string]bool) {
	s, ok := v.T.Underlying().(*types.Struct)
	if !ok {
		return
	}
	for i := 0; i < s.NumFields(); i++ {
		f := s.Field(i)
		if except[f.Name()] {
			continue
		}
		z := ex.zero(f.Type())
		if _, isStruct := f.Type().Underlying().(*types.Struct); isStruct {
			continue // nested zero structs: leave opaque
		}
		st.assume(eq(ex.fieldOfVal(v, f), z.Term))
	}
}

// fieldOfVal: accessor on a struct value.
func (ex *Exec) fieldOfVal(v *Val, f *types.Var) *Term {
	name := "fld$" + strings.TrimPrefix(ex.sortOf(v.T), "S$") + "$" + f.Name()
	return ex.D.app(name, ex.sortOf(f.Type()), v.Term)
}

// ---------------------------------------------------------------------
// Strings

func (ex *Exec) strEmpty() *Term { return ex.D.konst("st.empty", SStr) }

func (ex *Exec) strLen(s *Term) *Term { return ex.D.app("st.len", SInt, s) }
func (ex *Exec) strAt(s, i *Term) *Term { return ex.D.app("st.at", SByte, s, i) }
func (ex *Exec) strCat(a, b *Term) *Term {
	if a.Op == "st.empty" {
		return b
	}
	if b.Op == "st.empty" {
		return a
	}
	if la, ok := ex.litOf(a); ok {
		if lb, ok := ex.litOf(b); ok {
			return ex.strLit(la + lb)
		}
	}
	return ex.D.app("st.cat", SStr, a, b)
}

func (ex *Exec) strLit(s string) *Term {
	if s == "" {
		return ex.strEmpty()
	}
	if t, ok := ex.strLits[s]; ok {
		return t
	}
	name := fmt.Sprintf("strlit!%d", len(ex.strLits)+1)
	t := ex.D.konst(name, SStr)
	ex.strLits[s] = t
	return t
}

// stringAxioms returns the facts about literals and string functions.
func (ex *Exec) stringAxioms() []*Term {
	var out []*Term
	if ok := ex.D.has("st.len"); ok || len(ex.strLits) > 0 {
		s := mk("s?", SStr)
		out = append(out, forall([]*Term{s}, ge(ex.strLen(s), intLit(0)), []*Term{ex.strLen(s)}))
		out = append(out, eq(ex.strLen(ex.strEmpty()), intLit(0)))
		out = append(out, forall([]*Term{s}, implies(eq(ex.strLen(s), intLit(0)), eq(s, ex.strEmpty())), []*Term{ex.strLen(s)}))
	}
	if ok := ex.D.has("st.cat"); ok {
		a, b := mk("a?", SStr), mk("b?", SStr)
		cat := ex.D.app("st.cat", SStr, a, b)
		out = append(out, forall([]*Term{a, b}, eq(ex.strLen(cat), add(ex.strLen(a), ex.strLen(b))), []*Term{cat}))
		if ex.contentStrings {
			// byte-level view of concatenations: only on request (it can send
			// E-matching into long instantiation chains)
			i := mk("i?", SInt)
			out = append(out, forall([]*Term{a, b, i},
				eq(ex.strAt(cat, i), ite(lt(i, ex.strLen(a)), ex.strAt(a, i), ex.strAt(b, sub(i, ex.strLen(a))))),
				[]*Term{ex.strAt(cat, i)}))
		}
		// cancellation: a ++ b = a ++ c => b = c is not generally needed.
	}
	var keys []string
	for k := range ex.strLits {
		keys = append(keys, k)
	}
	sort.Strings(keys)
	var lits []*Term
	for _, k := range keys {
		t := ex.strLits[k]
		lits = append(lits, t)
		out = append(out, eq(ex.strLen(t), intLit(int64(len(k)))))
		if len(k) <= 24 {
			for i := 0; i < len(k); i++ {
				out = append(out, eq(ex.strAt(t, intLit(int64(i))), byteLit(k[i])))
			}
		}
	}
	if len(lits) > 0 {
		lits = append(lits, ex.strEmpty())
		out = append(out, mk("distinct", SBool, lits...))
	}
	return out
}

// ---------------------------------------------------------------------
// Slices

func (ex *Exec) sRef(s *Term) *Term { return ex.D.app("s.ref", SInt, s) }
func (ex *Exec) sOff(s *Term) *Term { return ex.D.app("s.off", SInt, s) }
func (ex *Exec) sLen(s *Term) *Term { return ex.D.app("s.len", SInt, s) }
func (ex *Exec) sCap(s *Term) *Term { return ex.D.app("s.cap", SInt, s) }

func (ex *Exec) nilSlice() *Term { return ex.D.konst("s.nil", SSlice) }

func (ex *Exec) sliceAxioms() []*Term {
	if ok := ex.D.has("s.nil"); !ok {
		return nil
	}
	n := ex.nilSlice()
	return []*Term{eq(ex.sRef(n), intLit(0)), eq(ex.sOff(n), intLit(0)), eq(ex.sLen(n), intLit(0)), eq(ex.sCap(n), intLit(0))}
}

// mkSlice builds a fresh slice term with the given components.
func (ex *Exec) mkSlice(st *State, ref, off, ln, cp *Term) *Term {
	s := ex.fresh("sl", SSlice)
	if ln == cp || ln.String() == cp.String() {
		if ex.clipped == nil {
			ex.clipped = map[string]bool{}
		}
		ex.clipped[s.Op] = true
	}
	st.assume(eq(ex.sRef(s), ref))
	st.assume(eq(ex.sOff(s), off))
	st.assume(eq(ex.sLen(s), ln))
	st.assume(eq(ex.sCap(s), cp))
	return s
}

// wfSlice: well-formedness facts of a slice term.
func (ex *Exec) wfSlice(st *State, s *Term) *Term {
	return and(
		ge(ex.sOff(s), intLit(0)),
		ge(ex.sLen(s), intLit(0)),
		le(ex.sLen(s), ex.sCap(s)),
		ge(ex.sRef(s), intLit(0)),
		lt(ex.sRef(s), ex.alloc(st)),
		implies(eq(ex.sRef(s), intLit(0)), eq(ex.sCap(s), intLit(0))),
	)
}

// wf assumes the type invariant of a value of static type t.
func (ex *Exec) wf(st *State, v *Val) {
	if v == nil || v.Term == nil || v.T == nil {
		return
	}
	if ex.quantDepth > 0 {
		return
	}
	switch u := v.T.Underlying().(type) {
	case *types.Slice:
		st.assume(ex.wfSlice(st, v.Term))
	case *types.Basic:
		if u.Info()&types.IsUnsigned != 0 && u.Kind() != types.Uint8 {
			st.assume(ge(v.Term, intLit(0)))
		}
	case *types.Pointer, *types.Interface, *types.Signature, *types.Chan, *types.Map:
		st.assume(ge(v.Term, intLit(0)))
		st.assume(lt(v.Term, ex.alloc(st)))
	}
}

// memName: element memory for slices with element type t.
func (ex *Exec) memName(elem types.Type) (string, string) {
	es := ex.sortOf(elem)
	name := "Mem$" + smtName(es)
	return name, arrSort(SInt, arrSort(SInt, es))
}

func (ex *Exec) heap(st *State, name, srt string) *Term {
	ex.heapSorts[name] = srt
	if t, ok := st.heaps[name]; ok {
		return t
	}
	if st.specDef != nil {
		leaf := mk("h$"+smtName(name), srt)
		st.specDef[name] = leaf
		st.heaps[name] = leaf
		return leaf
	}
	t := ex.D.konst(name+"@0", srt)
	st.heaps[name] = t
	if st.old != nil {
		if _, ok := st.old.heaps[name]; !ok {
			st.old.heaps[name] = t
		}
	}
	for _, lh := range st.held {
		if lh == nil || lh.snap == nil {
			continue
		}
		if _, ok := lh.snap.heaps[name]; !ok {
			lh.snap.heaps[name] = t
		}
	}
	for _, lu := range st.lastUnlock {
		if _, ok := lu.heaps[name]; !ok {
			lu.heaps[name] = t
		}
	}
	return t
}

func (ex *Exec) alloc(st *State) *Term { return ex.heap(st, "$alloc", SInt) }

func (ex *Exec) newRef(st *State) *Term {
	a := ex.alloc(st)
	r := ex.fresh("ref", SInt)
	st.assume(eq(r, a))
	st.assume(gt(r, intLit(0)))
	n := ex.fresh("alloc", SInt)
	st.assume(eq(n, add(a, intLit(1))))
	st.heaps["$alloc"] = n
	return r
}

func (ex *Exec) mem(st *State, elem types.Type) *Term {
	n, s := ex.memName(elem)
	return ex.heap(st, n, s)
}

// ix is the absolute position of element i of a slice with offset off.  It is
// an uninterpreted function with the definitional axiom ix(a,b) = a+b, so that
// quantifier triggers over element accesses contain no arithmetic.
func (ex *Exec) ix(off, i *Term) *Term {
	if ok := ex.D.has("ix"); !ok {
		ex.D.declare("ix", []string{SInt, SInt}, SInt)
		a, b := mk("a?", SInt), mk("b?", SInt)
		app := mk("ix", SInt, a, b)
		ex.D.axiom("ix.def", forall([]*Term{a, b}, eq(app, mk("+", SInt, a, b)), []*Term{app}))
	}
	return mk("ix", SInt, off, i)
}

// sliceElem reads s[i] (no bounds obligation here).
func (ex *Exec) sliceElem(st *State, s *Term, i *Term, elem types.Type) *Term {
	m := ex.mem(st, elem)
	return sel(sel(m, ex.sRef(s)), ex.ix(ex.sOff(s), i))
}

func (ex *Exec) sliceStore(st *State, s *Term, i *Term, elem types.Type, v *Term) {
	n, _ := ex.memName(elem)
	m := ex.mem(st, elem)
	inner := sel(m, ex.sRef(s))
	st.heaps[n] = store(m, ex.sRef(s), store(inner, ex.ix(ex.sOff(s), i), v))
}

// fieldHeap: heap of a struct field accessed through pointers.
func (ex *Exec) fieldHeapName(structT types.Type, field string) string {
	return "H$" + typeKey(structT) + "$" + field
}

func (ex *Exec) readField(st *State, ptr *Term, structT types.Type, fname string, ft types.Type) *Term {
	name := ex.fieldHeapName(structT, fname)
	h := ex.heap(st, name, arrSort(SInt, ex.sortOf(ft)))
	return sel(h, ptr)
}

func (ex *Exec) writeField(st *State, ptr *Term, structT types.Type, fname string, ft types.Type, v *Term) {
	name := ex.fieldHeapName(structT, fname)
	h := ex.heap(st, name, arrSort(SInt, ex.sortOf(ft)))
	st.heaps[name] = store(h, ptr, v)
}

// havocHeap replaces a heap by a fresh symbol.
func (ex *Exec) havocHeap(st *State, name string) {
	cur, ok := st.heaps[name]
	if !ok {
		return
	}
	st.heaps[name] = ex.fresh(strings.TrimSuffix(name, "@0"), cur.S)
}

// ---------------------------------------------------------------------
// Obligations

func (ex *Exec) propsFor(extra []string) []string {
	if len(extra) > 0 {
		return extra
	}
	if len(ex.curHookProps) > 0 {
		return ex.curHookProps
	}
	return ex.Props
}

// oblige records goal as an obligation under the current path condition.
func (ex *Exec) oblige(st *State, kind, anchor string, pos token.Pos, goal *Term, props []string) {
	name := ex.FName + "/" + kind
	if anchor != "" {
		name += "@" + anchor
	}
	ob := ex.Obs[name]
	if ob == nil {
		ob = &Obligation{Name: name, Kind: kind, Func: ex.FName, Props: ex.propsFor(props), Pos: ex.posStr(pos), Backend: "smt"}
		ex.Obs[name] = ob
		ex.ObOrd = append(ex.ObOrd, name)
	}
	if isTrue(goal) {
		// trivially true on this path; keep a record so the obligation exists
		// and so that the cover check knows this path reaches it
		ob.Queries = append(ob.Queries, &Query{Hyps: append([]*Term(nil), st.pc...), Goal: tTrue, Decls: ex.D, Path: strings.Join(st.path, ">")})
		return
	}
	ob.Queries = append(ob.Queries, &Query{Hyps: append([]*Term(nil), st.pc...), Goal: goal, Decls: ex.D, Path: strings.Join(st.path, ">"), Vars: ex.modelVars, Slices: ex.modelSlices, Only: ex.curOnly})
}

func (ex *Exec) obligeAST(kind, anchor string, pos token.Pos, ok bool, msg string, props []string) {
	name := ex.FName + "/" + kind
	if anchor != "" {
		name += "@" + anchor
	}
	ob := ex.Obs[name]
	if ob == nil {
		ob = &Obligation{Name: name, Kind: kind, Func: ex.FName, Props: ex.propsFor(props), Pos: ex.posStr(pos), Backend: "ast", ASTOK: true}
		ex.Obs[name] = ob
		ex.ObOrd = append(ex.ObOrd, name)
	}
	if !ok {
		ob.ASTOK = false
		if ob.ASTMsg != "" {
			ob.ASTMsg += "; "
		}
		ob.ASTMsg += msg
	}
}

// tagHyp remembers which contract clause a hypothesis came from (used only to
// select hypotheses when a query is retried with fewer of them).
// tagAssert remembers which ghost assertion a fact came from (for
// assert(..., "from"...) only; the own-clause strategy keeps asserted facts).
func (ex *Exec) tagAssert(t *Term, label string) {
	if ex.assertTags == nil {
		ex.assertTags = map[*Term]string{}
	}
	ex.assertTags[t] = label
	if t.Op == "and" {
		for _, a := range t.Args {
			ex.tagAssert(a, label)
		}
	}
}

func (ex *Exec) tagHyp(t *Term, label string) {
	if ex.hypTags == nil {
		ex.hypTags = map[*Term]string{}
	}
	ex.hypTags[t] = label
	if t.Op == "and" {
		for _, a := range t.Args {
			ex.tagHyp(a, label)
		}
	}
}

// ---------------------------------------------------------------------
// maps: a value heap Map$K$V (ref -> key -> value) and a presence heap
// MapHas$K$V (ref -> key -> Bool).  By convention an absent key maps to the
// zero value in the value heap (stores and deletes maintain it; for maps that
// come from outside it is assumed at each read - it is how Go reads behave).

func (ex *Exec) mapHeaps(st *State, m *types.Map) (vn, hn string, vh, hh *Term) {
	ks, es := ex.sortOf(m.Key()), ex.sortOf(m.Elem())
	vn = "Map$" + smtName(ks) + "$" + smtName(es)
	hn = "MapHas$" + smtName(ks) + "$" + smtName(es)
	vh = ex.heap(st, vn, arrSort(SInt, arrSort(ks, es)))
	hh = ex.heap(st, hn, arrSort(SInt, arrSort(ks, SBool)))
	return
}

func (ex *Exec) mapHas(st *State, m *types.Map, ref, key *Term) *Term {
	_, _, _, hh := ex.mapHeaps(st, m)
	return and(not(eq(ref, intLit(0))), sel(sel(hh, ref), key))
}

func (ex *Exec) mapStore(st *State, m *types.Map, ref, key, val *Term) {
	vn, hn, vh, hh := ex.mapHeaps(st, m)
	st.heaps[vn] = store(vh, ref, store(sel(vh, ref), key, val))
	st.heaps[hn] = store(hh, ref, store(sel(hh, ref), key, tTrue))
}

func (ex *Exec) mapDelete(st *State, m *types.Map, ref, key *Term) {
	vn, hn, vh, hh := ex.mapHeaps(st, m)
	z := ex.zero(m.Elem())
	if z.Term != nil {
		st.heaps[vn] = store(vh, ref, store(sel(vh, ref), key, z.Term))
	}
	st.heaps[hn] = store(hh, ref, store(sel(hh, ref), key, tFalse))
}

// mapInitEmpty makes ref an empty map: no key present.  (The value row is
// left as it is: reads of absent keys are pinned to zero at the read.)
func (ex *Exec) mapInitEmpty(st *State, m *types.Map, ref *Term) {
	_, hn, _, hh := ex.mapHeaps(st, m)
	ks := ex.sortOf(m.Key())
	empty := &Term{Op: "((as const " + arrSort(ks, SBool) + ") false)", S: arrSort(ks, SBool)}
	st.heaps[hn] = store(hh, ref, empty)
}

// lockOrderCheck: lock L is about to be taken while the locks in st.held are
// held.  Every such nesting must follow a declared order (`lockorder A < B`:
// B may be taken while A is held); an undeclared or reversed nesting is
// reported - two threads nesting the same two locks in opposite orders can
// block each other for ever.
func (ex *Exec) lockOrderCheck(st *State, l string, pos token.Pos) {
	var hs []string
	for h := range st.held {
		hs = append(hs, h)
	}
	sort.Strings(hs)
	for _, h := range hs {
		if h == l {
			ex.obligeAST("lock-order", h+"->"+l, pos, false,
				fmt.Sprintf("%s: %s is taken while it is already held by the same thread", ex.posStr(pos), l), nil)
			continue
		}
		ok := ex.W.LockOrder[[2]string{h, l}]
		msg := ""
		if !ok {
			if ex.W.LockOrder[[2]string{l, h}] {
				msg = fmt.Sprintf("%s: %s is taken while %s is held, against the declared order %s < %s: a thread holding %s and waiting for %s (which the declared order allows) and this one block each other for ever", ex.posStr(pos), l, h, l, h, l, h)
			} else {
				msg = fmt.Sprintf("%s: %s is taken while %s is held and no order between the two is declared", ex.posStr(pos), l, h)
			}
		}
		ex.obligeAST("lock-order", h+"->"+l, pos, ok, msg, nil)
	}
}
