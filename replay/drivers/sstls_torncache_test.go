package sstls

// Bounded stand-in for the torn-write / corruption clause of C08 (injected
// with go test -overlay): the txtar, PEM and X.509 parsers are trusted
// library code that no contract here reaches, so the real GetCertificate is
// run on every prefix of freshly generated cache files and on single-byte
// corruptions of one, and must answer with an error or with the original key,
// never rewriting the file.  A missing file is regenerated.
// Bounds: VERIF_C08_FILES files (default 2) x every prefix length;
// every VERIF_C08_STRIDE-th byte position (default 7) x 3 replacement values.

import (
	"bytes"
	"fmt"
	"os"
	"path/filepath"
	"strconv"
	"testing"
)

func verifEnvInt(name string, def int) int {
	if s := os.Getenv(name); s != "" {
		if n, err := strconv.Atoi(s); err == nil {
			return n
		}
	}
	return def
}

func TestVerifBoundedTornCache(t *testing.T) {
	nFiles := verifEnvInt("VERIF_C08_FILES", 2)
	stride := verifEnvInt("VERIF_C08_STRIDE", 7)
	dir := t.TempDir()
	cases := 0
	for f := 0; f < nFiles; f++ {
		/* Nested, not-yet-existing directories. */
		path := filepath.Join(dir, fmt.Sprint("run", f), "a", "b", "cert.txtar")
		orig, err := GetCertificate("", nil, nil, 0, path)
		if nil != err {
			t.Fatalf("generating: %v", err)
		}
		want, err := PubkeyFingerprintTLS(orig)
		if nil != err {
			t.Fatal(err)
		}
		for p := filepath.Dir(path); p != dir; p = filepath.Dir(p) {
			if fi, err := os.Stat(p); nil != err || 0 != fi.Mode().Perm()&0077 {
				t.Fatalf("REPRODUCED: directory %s created for the cache has mode %v (not owner-only)", p, fi.Mode())
			}
		}
		if fi, err := os.Stat(path); nil != err || 0 != fi.Mode().Perm()&0077 {
			t.Fatalf("REPRODUCED: cache file has mode %v (not owner-only)", fi.Mode())
		}
		full, err := os.ReadFile(path)
		if nil != err {
			t.Fatal(err)
		}
		check := func(what string, content []byte) {
			cases++
			if err := os.WriteFile(path, content, 0600); nil != err {
				t.Fatal(err)
			}
			cert, err := GetCertificate("", nil, nil, 0, path)
			after, rerr := os.ReadFile(path)
			if nil != rerr || !bytes.Equal(after, content) {
				t.Fatalf("REPRODUCED: %s: an existing cache file was rewritten", what)
			}
			if nil != err {
				return
			}
			got, err := PubkeyFingerprintTLS(cert)
			if nil != err || got != want {
				t.Fatalf("REPRODUCED: %s: a key other than the cached one is served without an error (fingerprint %s, cached %s)", what, got, want)
			}
		}
		/* Restart with the intact file: same key. */
		check("intact file", full)
		/* Every prefix (an interrupted write). */
		for n := 0; n < len(full); n++ {
			check(fmt.Sprintf("prefix of %d/%d bytes", n, len(full)), full[:n])
		}
		/* Single-byte corruptions of the first file. */
		if 0 == f {
			for i := 0; i < len(full); i += stride {
				for _, v := range []byte{0x00, '-', full[i] ^ 0x20} {
					if v == full[i] {
						continue
					}
					c := bytes.Clone(full)
					c[i] = v
					check(fmt.Sprintf("byte %d changed from %q to %q", i, full[i], v), c)
				}
			}
		}
		/* Delete the cache: simply regenerated, and then stable again. */
		if err := os.Remove(path); nil != err {
			t.Fatal(err)
		}
		c2, err := GetCertificate("", nil, nil, 0, path)
		if nil != err {
			t.Fatalf("REPRODUCED: a missing cache file is not regenerated: %v", err)
		}
		fp2, _ := PubkeyFingerprintTLS(c2)
		c3, err := GetCertificate("", nil, nil, 0, path)
		fp3, _ := PubkeyFingerprintTLS(c3)
		if nil != err || fp2 != fp3 {
			t.Fatalf("REPRODUCED: key not stable across restarts after regeneration")
		}
		cases += 2
	}
	fmt.Printf("VERIF-BOUNDED cases=%d files=%d stride=%d\n", cases, nFiles, stride)
}
