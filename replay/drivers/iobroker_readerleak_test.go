package iobroker

// Replay driver for obligation iobroker.Broker.proxyOut#1/noblock@och<-
// (injected with go test -overlay; nothing is written to /repo).
// Stalled operator channel, output flood, cancel, transport close: the reader
// goroutine of proxyOut must not stay parked in a channel send.

import (
	"context"
	"io"
	"log/slog"
	"runtime"
	"strings"
	"testing"
	"time"

	"github.com/magisterquis/curlrevshell/lib/opshell"
)

func TestVerifReplayReaderLeak(t *testing.T) {
	ich := make(chan string)
	och := make(chan opshell.CLine) /* Never read: stalled terminal. */
	b, err := New(ich, och)
	if nil != err {
		t.Fatal(err)
	}
	pr, pw := io.Pipe()
	ctx, cancel := context.WithCancel(context.Background())
	done := make(chan error, 1)
	go func() {
		done <- b.proxyOut(ctx, slog.New(slog.NewTextHandler(io.Discard, nil)), pr)
	}()
	go func() { /* Flood. */
		for i := 0; i < 8; i++ {
			if _, err := pw.Write([]byte("chunk\n")); nil != err {
				return
			}
		}
	}()
	time.Sleep(100 * time.Millisecond)
	cancel()
	select {
	case <-done:
	case <-time.After(5 * time.Second):
		t.Fatalf("proxyOut did not return after cancel")
	}
	pw.Close() /* Transport closed. */
	pr.Close()
	deadline := time.Now().Add(2 * time.Second)
	for {
		buf := make([]byte, 1<<20)
		buf = buf[:runtime.Stack(buf, true)]
		n := 0
		for _, g := range strings.Split(string(buf), "\n\n") {
			if strings.Contains(g, "proxyOut.func1") {
				n++
				if time.Now().After(deadline) {
					t.Fatalf("REPRODUCED: reader goroutine still running after cancel and transport close:\n%s", g)
				}
			}
		}
		if 0 == n {
			return
		}
		time.Sleep(50 * time.Millisecond)
	}
}
