package shellfuncsfile

// Replay driver for C16: shellfuncsfile.FromPerl/post@uniform_template,
// witness class "the script is empty".

import (
	"os/exec"
	"strings"
	"testing"
)

func TestVerifReplayEmptyPerl(t *testing.T) {
	b, err := FromPerl("empty.pl", strings.NewReader(""))
	if nil != err {
		t.Fatal(err)
	}
	perl := exec.Command("perl", "-e", "")
	if err := perl.Run(); nil != err {
		t.Skipf("perl: %s", err)
	}
	for _, sh := range []string{"dash", "bash"} {
		out, err := exec.Command(sh, "-c", string(b)+"\nempty").CombinedOutput()
		if nil != err {
			t.Errorf("REPRODUCED: perl runs the empty script with status 0, but the generated function %q under %s: %v (%s)", strings.TrimSpace(string(b)), sh, err, strings.TrimSpace(string(out)))
		}
	}
}
