package hsrv

// Replay driver for C10: hsrv.Server.RLogf / RErrorLogf
// obligation notice_is_host_plus_message_verbatim.

import (
	"net/http"
	"os"
	"testing"

	"github.com/magisterquis/curlrevshell/lib/opshell"
)

func TestVerifReplayRLogf(t *testing.T) {
	msg := os.Getenv("VERIF_REPLAY_MSG")
	if "" == msg {
		msg = "/a%20b?x=%d%s%!"
	}
	och := make(chan opshell.CLine, 4)
	s := &Server{och: och}
	r := &http.Request{RemoteAddr: "192.0.2.7:4444"}
	want := "[192.0.2.7] File requested: " + msg
	s.RLogf(FileColor, r, "File requested: %s", msg)
	if got := (<-och).Line; got != want {
		t.Errorf("REPRODUCED (RLogf): notice is %q, client text was %q", got, msg)
	}
	want = "[192.0.2.7] Could not open " + msg
	s.RErrorLogf(r, "Could not open %s", msg)
	if got := (<-och).Line; got != want {
		t.Errorf("REPRODUCED (RErrorLogf): notice is %q, client text was %q", got, msg)
	}
}
