package simpleshell

// Replay driver for C14: simpleshell.CmdShell.Go typestate obligation
// (exec.Cmd.Wait/Run only after both pipe copies have finished).
// The command writes a known amount quickly and exits; the consumer reads
// slowly; every byte must arrive before EOF.

import (
	"context"
	"io"
	"os/exec"
	"testing"
	"time"
)

func TestVerifReplayCmdShellDrain(t *testing.T) {
	const want = 60000
	lost := 0
	for trial := 0; trial < 10; trial++ {
		cs, err := NewCmdShell(exec.Command("/bin/sh", "-c", "head -c 60000 /dev/zero; head -c 60000 /dev/zero >&2"))
		if nil != err {
			t.Fatal(err)
		}
		cs.SetInput(nil)
		done := make(chan error, 1)
		go func() { done <- cs.Go(context.Background()) }()
		got := 0
		buf := make([]byte, 512)
		out := cs.Output()
		for {
			n, err := out.Read(buf)
			got += n
			if nil != err {
				if io.EOF != err {
					t.Logf("trial %d: stream ended with %v", trial, err)
				}
				break
			}
			time.Sleep(200 * time.Microsecond)
		}
		<-done
		if got != 2*want {
			lost++
			t.Logf("trial %d: %d of %d bytes arrived before the stream ended", trial, got, 2*want)
		}
	}
	if 0 != lost {
		t.Fatalf("REPRODUCED: output was truncated in %d of 10 runs (the command had exited before its pipes were drained)", lost)
	}
}
