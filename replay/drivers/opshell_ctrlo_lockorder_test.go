package opshell

/*
 * Replay driver for the lock-order obligation of the Ctrl+O handler
 * (opshell.New#2/lock-order@...): the terminal library calls the control
 * character callback with its own lock held, and the callback takes the
 * shell's write lock; every writer takes the write lock and then, inside
 * Terminal.Write, the terminal's lock.  Two threads taking two locks in
 * opposite orders can block each other for ever.
 *
 * The driver runs the real New and Do in a child process whose controlling
 * terminal is a fresh pty (New needs one), floods the shell with status
 * lines and presses Ctrl+O while they are being written.  If afterwards a
 * marker status line never reaches the terminal, the shell is wedged:
 * REPRODUCED.  Injected with go test -overlay; nothing is written to /repo.
 */

import (
	"bufio"
	"bytes"
	"context"
	"errors"
	"fmt"
	"os"
	"os/exec"
	"strconv"
	"strings"
	"sync"
	"syscall"
	"testing"
	"time"
	"unsafe"
)

const verifCtrlOChildEnv = "VERIF_OPSHELL_CTRLO_CHILD"

// verifCtrlOChild is the child: a real shell on the pty; commands on fd 3:
//
//	S text  - one status line
//	F n     - n status lines, as fast as the shell takes them
func verifCtrlOChild() {
	var (
		ich = make(chan string, 1024)
		och = make(chan CLine, 1024)
	)
	s, cleanup, err := New(
		ich,
		och,
		"> ",
		false,
		func() ([]byte, error) { return nil, errors.New("none") },
		"none",
	)
	if nil != err {
		fmt.Fprintf(os.Stdout, "CHILDERROR New: %s\r\n", err)
		os.Exit(7)
	}
	defer cleanup()
	go s.Do(context.Background())
	go func() {
		for range ich {
		}
	}()
	scanner := bufio.NewScanner(os.NewFile(3, "cmds"))
	for scanner.Scan() {
		kind, text, _ := strings.Cut(scanner.Text(), " ")
		switch kind {
		case "S":
			och <- CLine{Color: ColorGreen, Line: text}
		case "F":
			n, _ := strconv.Atoi(text)
			for i := range n {
				och <- CLine{
					Color: ColorGreen,
					Line:  fmt.Sprintf("flood-%d", i),
				}
			}
		}
	}
	cleanup()
	os.Exit(0)
}

func verifIoctl(fd uintptr, req uintptr, arg unsafe.Pointer) error {
	if _, _, e := syscall.Syscall(syscall.SYS_IOCTL, fd, req, uintptr(arg)); 0 != e {
		return e
	}
	return nil
}

func verifPTY(t *testing.T) (master, slave *os.File) {
	t.Helper()
	master, err := os.OpenFile("/dev/ptmx", os.O_RDWR|syscall.O_NOCTTY, 0)
	if nil != err {
		t.Skipf("No pty available: %s", err)
	}
	var unlock int32
	if err := verifIoctl(master.Fd(), syscall.TIOCSPTLCK, unsafe.Pointer(&unlock)); nil != err {
		t.Skipf("Unlocking pty: %s", err)
	}
	var n uint32
	if err := verifIoctl(master.Fd(), syscall.TIOCGPTN, unsafe.Pointer(&n)); nil != err {
		t.Skipf("Getting pty number: %s", err)
	}
	slave, err = os.OpenFile(fmt.Sprintf("/dev/pts/%d", n), os.O_RDWR|syscall.O_NOCTTY, 0)
	if nil != err {
		t.Skipf("Opening pty slave: %s", err)
	}
	ws := struct{ Row, Col, X, Y uint16 }{Row: 24, Col: 200}
	if err := verifIoctl(master.Fd(), syscall.TIOCSWINSZ, unsafe.Pointer(&ws)); nil != err {
		t.Skipf("Setting pty size: %s", err)
	}
	return master, slave
}

type verifScreen struct {
	mu  sync.Mutex
	buf bytes.Buffer
}

func (sc *verifScreen) has(want string) bool {
	sc.mu.Lock()
	defer sc.mu.Unlock()
	return bytes.Contains(sc.buf.Bytes(), []byte(want))
}

func (sc *verifScreen) waitFor(want string, timeout time.Duration) bool {
	deadline := time.Now().Add(timeout)
	for {
		if sc.has(want) {
			return true
		}
		if time.Now().After(deadline) {
			return false
		}
		time.Sleep(10 * time.Millisecond)
	}
}

func TestVerifReplayCtrlOLockOrder(t *testing.T) {
	if "" != os.Getenv(verifCtrlOChildEnv) {
		verifCtrlOChild()
		return
	}
	rounds := 6
	if s := os.Getenv("VERIF_CTRLO_ROUNDS"); "" != s {
		if n, err := strconv.Atoi(s); nil == err {
			rounds = n
		}
	}
	for round := range rounds {
		if verifCtrlORound(t, round) {
			t.Fatalf("REPRODUCED: after Ctrl+O was pressed while status lines were being written (round %d) the shell never wrote another line: the Ctrl+O handler (called by the terminal library with the terminal's lock held) waits for the write lock, whose holder waits in Terminal.Write for the terminal's lock", round)
		}
	}
	fmt.Printf("not reproduced in %d rounds\n", rounds)
}

// verifCtrlORound runs one child; true means the shell wedged.
func verifCtrlORound(t *testing.T, round int) bool {
	master, slave := verifPTY(t)
	defer master.Close()
	cmdR, cmdW, err := os.Pipe()
	if nil != err {
		t.Fatalf("Pipe: %s", err)
	}
	defer cmdW.Close()
	child := exec.Command(os.Args[0], "-test.run=^TestVerifReplayCtrlOLockOrder$", "-test.count=1")
	child.Env = append(os.Environ(), verifCtrlOChildEnv+"=1")
	child.Stdin = slave
	child.Stdout = slave
	child.Stderr = slave
	child.ExtraFiles = []*os.File{cmdR}
	child.SysProcAttr = &syscall.SysProcAttr{Setsid: true, Setctty: true, Ctty: 0}
	if err := child.Start(); nil != err {
		t.Skipf("Starting child with a pty: %s", err)
	}
	slave.Close()
	cmdR.Close()
	defer func() {
		child.Process.Kill()
		child.Wait()
	}()
	var sc verifScreen
	go func() {
		b := make([]byte, 65536)
		for {
			n, err := master.Read(b)
			if 0 != n {
				sc.mu.Lock()
				/* Only the tail matters; keep memory bounded. */
				if sc.buf.Len() > 1<<20 {
					tail := bytes.Clone(sc.buf.Bytes()[sc.buf.Len()-4096:])
					sc.buf.Reset()
					sc.buf.Write(tail)
				}
				sc.buf.Write(b[:n])
				sc.mu.Unlock()
			}
			if nil != err {
				return
			}
		}
	}()
	send := func(format string, args ...any) {
		fmt.Fprintf(cmdW, format+"\n", args...)
	}
	send("S shell-is-up")
	if !sc.waitFor("shell-is-up", 10*time.Second) {
		t.Skipf("Child did not start a shell: %q", sc.buf.String())
	}
	/* Flood, and press Ctrl+O while the flood is being written. */
	const flood = 60000
	send("F %d", flood)
	for i := 0; i < 40 && !sc.has(fmt.Sprintf("flood-%d", flood-1)); i++ {
		master.Write([]byte{0x0f})
		time.Sleep(time.Duration(3+round) * time.Millisecond)
	}
	/* Whatever happened, a later status line has to come out. */
	send("S marker-after-the-flood")
	return !sc.waitFor("marker-after-the-flood", 20*time.Second)
}
