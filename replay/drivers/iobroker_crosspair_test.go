package iobroker

// Replay driver for C06: two simultaneous bidirectional requests; the halves
// of different requests must never be combined into one shell.

import (
	"context"
	"io"
	"log/slog"
	"strings"
	"sync"
	"testing"
	"time"

	"github.com/magisterquis/curlrevshell/lib/opshell"
)

type verifTagWriter struct {
	tag string
	ch  chan string
}

func (w verifTagWriter) Write(p []byte) (int, error) { w.ch <- w.tag; return len(p), nil }

func TestVerifReplayCrossPair(t *testing.T) {
	for trial := 0; trial < 3000; trial++ {
		ich := make(chan string, 16)
		och := make(chan opshell.CLine, 1024)
		b, err := New(ich, och)
		if nil != err {
			t.Fatal(err)
		}
		ctx, cancel := context.WithCancel(context.Background())
		sl := slog.New(slog.NewTextHandler(io.Discard, nil))
		got := make(chan string, 16)
		var wg sync.WaitGroup
		prs := map[string]*io.PipeWriter{}
		for _, tag := range []string{"A", "B"} {
			pr, pw := io.Pipe()
			prs[tag] = pw
			wg.Add(1)
			go func(tag string, pr *io.PipeReader) {
				defer wg.Done()
				b.ConnectInOut(ctx, sl, tag, verifTagWriter{tag, got}, pr)
			}(tag, pr)
		}
		/* Wait for a shell to be ready (or both refused). */
		ready := false
		deadline := time.After(2 * time.Second)
	WAIT:
		for {
			select {
			case cl := <-och:
				if strings.Contains(cl.Line, ShellReadyMessage) {
					ready = true
					break WAIT
				}
			case <-deadline:
				break WAIT
			}
		}
		var inTag, outTag string
		if ready {
			ich <- "probe"
			select {
			case inTag = <-got:
			case <-time.After(time.Second):
			}
			/* Each request sends its own tag as output; see which is shown. */
			for tag, pw := range prs {
				go func(tag string, pw *io.PipeWriter) { pw.Write([]byte("out-" + tag)) }(tag, pw)
			}
			tmo := time.After(time.Second)
		OUT:
			for {
				select {
				case cl := <-och:
					if cl.Plain {
						outTag = strings.TrimPrefix(cl.Line, "out-")
						break OUT
					}
				case <-tmo:
					break OUT
				}
			}
		}
		cancel()
		for _, pw := range prs {
			pw.Close()
		}
		wg.Wait()
		if "" != inTag && "" != outTag && inTag != outTag {
			t.Fatalf("REPRODUCED on trial %d: operator input went to request %s while the displayed output came from request %s", trial, inTag, outTag)
		}
	}
}
