package uu

// Replay driver / bounded stand-in for C15 (injected with go test -overlay).
// It evaluates the contracts of AppendEncode and AppendDecode at run time on
// an enumerated input family and reports the first input that violates one:
//   - encoder output == closed-form specification (encByte, transcribed here
//     independently of the code) and, when perl is installed, == pack("u");
//   - decode(encode(x)) == x appended to the caller's buffer;
//   - neither function modifies src or the existing contents of dst (also
//     when dst has spare capacity);
//   - the decoder never panics and a failure returns no buffer and an error
//     locating a line inside the input.
// When the verifier produced a model, its projection onto the inputs is passed
// in VERIF_MODEL_* and is tried first ("verifier counterexample"); only if it
// does not fail on the real code does the enumeration run.
// Bounds: lengths 0..VERIF_UU_MAXLEN (default 200) x 6 fills; 4000 (default)
// pseudo-random invalid texts seeded by VERIF_SEED.

import (
	"bytes"
	"encoding/hex"
	"errors"
	"fmt"
	"math/rand"
	"os"
	"os/exec"
	"strconv"
	"strings"
	"testing"
)

func verifSpecEncLen(n int) int {
	l := 62 * (n / 45)
	if n%45 != 0 {
		l += 2 + 4*((n%45+2)/3)
	}
	return l
}

func verifSpecEncByte(x []byte, p int) byte {
	n := len(x)
	L, o := p/62, p%62
	m := n - 45*L
	if m > 45 {
		m = 45
	}
	if o == 0 {
		return byte(32 + m)
	}
	if o == 1+4*((m+2)/3) {
		return '\n'
	}
	at := func(i int) byte {
		if i < 45*L+m {
			return x[i]
		}
		return 0
	}
	k, r := (o-1)/4, (o-1)%4
	a, b, c := at(45*L+3*k), at(45*L+3*k+1), at(45*L+3*k+2)
	var s byte
	switch r {
	case 0:
		s = a >> 2
	case 1:
		s = (a<<4 | b>>4) & 63
	case 2:
		s = (b<<2 | c>>6) & 63
	default:
		s = c & 63
	}
	if s == 0 {
		return '`'
	}
	return s + 32
}

func verifFills(n int, rnd *rand.Rand) [][]byte {
	mk := func(f func(i int) byte) []byte {
		b := make([]byte, n)
		for i := range b {
			b[i] = f(i)
		}
		return b
	}
	return [][]byte{
		mk(func(int) byte { return 0 }),
		mk(func(int) byte { return 0xFF }),
		mk(func(i int) byte { return byte(i) }),
		mk(func(i int) byte { return byte(255 - i*7) }),
		mk(func(int) byte { return byte(rnd.Intn(256)) }),
		mk(func(i int) byte { return "'\\`\n\r sb"[i%8] }),
	}
}


// verifCheckEncode evaluates AppendEncode's contract on one call.
func verifCheckEncode(dst, x []byte) (msg string) {
	defer func() {
		if r := recover(); nil != r {
			msg = fmt.Sprintf("AppendEncode panicked on src %x (dst len %d cap %d): %v", x, len(dst), cap(dst), r)
		}
	}()
	keep := bytes.Clone(x)
	keepArr := bytes.Clone(x[:cap(x)])
	keepDst := bytes.Clone(dst)
	n := len(x)
	res := AppendEncode(dst, x)
	if !bytes.Equal(x, keep) {
		return fmt.Sprintf("AppendEncode modified its source (len %d, src %x)", n, keep)
	}
	if !bytes.Equal(x[:cap(x)], keepArr) {
		return fmt.Sprintf("AppendEncode wrote into the caller's memory beyond len(src) (len %d cap %d, src %x)", n, cap(x), keep)
	}
	if len(res) < len(keepDst) || !bytes.Equal(res[:len(keepDst)], keepDst) {
		return fmt.Sprintf("AppendEncode modified the existing contents of dst (len %d)", n)
	}
	enc := res[len(keepDst):]
	if len(enc) != verifSpecEncLen(n) {
		return fmt.Sprintf("encoded length of %d bytes is %d, specification says %d (src %x)", n, len(enc), verifSpecEncLen(n), keep)
	}
	for p := range enc {
		if w := verifSpecEncByte(x, p); enc[p] != w {
			return fmt.Sprintf("byte %d of the encoding of %x is %q, Perl's pack(\"u\") specification says %q", p, keep, enc[p], w)
		}
	}
	if MaxEncodedLen(x) < len(enc) {
		return fmt.Sprintf("MaxEncodedLen(%d bytes) = %d under-estimates %d", n, MaxEncodedLen(x), len(enc))
	}
	return ""
}

// verifCheckDecode evaluates AppendDecode's contract on one call (any text).
func verifCheckDecode(dst, src []byte) (msg string) {
	keep := bytes.Clone(src)
	defer func() {
		if r := recover(); nil != r {
			msg = fmt.Sprintf("AppendDecode panicked on %q: %v", keep, r)
		}
	}()
	keepDst := bytes.Clone(dst)
	keepArr := bytes.Clone(src[:cap(src)])
	res, err := AppendDecode(dst, src)
	if !bytes.Equal(src, keep) {
		return fmt.Sprintf("AppendDecode modified its source %q -> %q", keep, src)
	}
	if !bytes.Equal(src[:cap(src)], keepArr) {
		return fmt.Sprintf("AppendDecode wrote into the caller's memory beyond len(src) for %q", keep)
	}
	if nil != err {
		var de DecodeError
		if nil != res {
			return fmt.Sprintf("AppendDecode returned a buffer together with error %v for %q", err, keep)
		}
		if !errors.As(err, &de) || de.Line < 0 || de.Line > bytes.Count(keep, []byte{'\n'}) {
			return fmt.Sprintf("error %v for %q does not locate a line of the input", err, keep)
		}
		return ""
	}
	if len(res) < len(keepDst) || !bytes.Equal(res[:len(keepDst)], keepDst) {
		return fmt.Sprintf("AppendDecode modified the existing contents of dst for %q", keep)
	}
	if len(res)-len(keepDst) > MaxDecodedLen(keep) {
		return fmt.Sprintf("MaxDecodedLen(%q) = %d under-estimates %d", keep, MaxDecodedLen(keep), len(res)-len(keepDst))
	}
	return ""
}

// verifModelSlice rebuilds a []byte input from the verifier's model.
func verifModelSlice(name string) ([]byte, bool) {
	h, ok := os.LookupEnv("VERIF_MODEL_" + name + "_HEX")
	if !ok {
		return nil, false
	}
	b, err := hex.DecodeString(h)
	if nil != err {
		return nil, false
	}
	c, err := strconv.Atoi(os.Getenv("VERIF_MODEL_" + name + "_CAP"))
	if nil != err || c < len(b) || c > 1<<20 {
		c = len(b)
	}
	s := make([]byte, len(b), c)
	copy(s, b)
	return s, true
}

func TestVerifReplayUUContract(t *testing.T) {
	seed := int64(1)
	if s := os.Getenv("VERIF_SEED"); s != "" {
		if n, err := strconv.ParseInt(s, 10, 64); err == nil {
			seed = n
		}
	}
	maxLen := 200
	if s := os.Getenv("VERIF_UU_MAXLEN"); s != "" {
		if n, err := strconv.Atoi(s); err == nil {
			maxLen = n
		}
	}
	nInvalid := 4000
	if s := os.Getenv("VERIF_UU_INVALID"); s != "" {
		if n, err := strconv.Atoi(s); err == nil {
			nInvalid = n
		}
	}
	rnd := rand.New(rand.NewSource(seed))
	cases, checked := 0, 0
	fail := func(format string, a ...any) {
		t.Fatalf("REPRODUCED: "+format, a...)
	}

	/* The verifier's counterexample first. */
	if fn := os.Getenv("VERIF_MODEL_FUNC"); "" != fn {
		src, okS := verifModelSlice("src")
		if !okS {
			src, okS = verifModelSlice("b")
		}
		dst, okD := verifModelSlice("dst")
		if okS {
			if !okD {
				dst = nil
			}
			var msg string
			switch fn {
			case "uu.AppendEncode":
				msg = verifCheckEncode(dst, src)
			case "uu.AppendDecode":
				msg = verifCheckDecode(dst, src)
			case "uu.MaxEncodedLen":
				if got, want := MaxEncodedLen(src), 63*(1+len(src)/45); got != want {
					msg = fmt.Sprintf("MaxEncodedLen(%d bytes) = %d, contract says %d", len(src), got, want)
				} else {
					msg = verifCheckEncode(nil, src)
				}
			case "uu.MaxDecodedLen":
				if got, want := MaxDecodedLen(src), 1+len(src)*16/3; got != want {
					msg = fmt.Sprintf("MaxDecodedLen(%d bytes) = %d, contract says %d", len(src), got, want)
				} else {
					msg = verifCheckDecode(nil, src)
				}
			}
			if "" != msg {
				fail("(verifier counterexample src=%x dst len %d cap %d) %s", src, len(dst), cap(dst), msg)
			}
			fmt.Printf("VERIF-MODEL the verifier's candidate input src=%x (dst len %d cap %d) does not fail on the real code; enumerating\n", src, len(dst), cap(dst))
		}
	}

	var perlIn bytes.Buffer
	var perlWant [][]byte
	for n := 0; n <= maxLen; n++ {
		for _, x := range verifFills(n, rnd) {
			cases++
			x = append(make([]byte, 0, len(x)+9), x...) /* source with spare capacity of its own */
			copy(x[len(x):cap(x)], "SPARESPAR")
			keep := bytes.Clone(x)
			/* Encoder with a destination that has contents and spare capacity. */
			dst := make([]byte, 5, 5+verifSpecEncLen(n)+7)
			copy(dst, "HELLO")
			if msg := verifCheckEncode(dst, x); "" != msg {
				fail("%s", msg)
			}
			enc := AppendEncode(nil, x)
			checked += len(enc)
			if n%7 == 0 {
				fmt.Fprintf(&perlIn, "%s\n", hex.EncodeToString(x))
				perlWant = append(perlWant, bytes.Clone(enc))
			}
			/* Round trip, destination with contents and spare capacity. */
			encKeep := bytes.Clone(enc)
			d2 := make([]byte, 3, 3+n+9)
			copy(d2, "abc")
			dec, err := AppendDecode(d2, enc)
			if nil != err {
				fail("decoding the encoding of %x failed: %v", keep, err)
			}
			if !bytes.Equal(enc, encKeep) {
				fail("AppendDecode modified its source (encoding of %x)", keep)
			}
			if string(dec[:3]) != "abc" || !bytes.Equal(dec[3:], x) {
				fail("decode(encode(x)) != x for x = %x: got %x", keep, dec)
			}
			if MaxDecodedLen(enc) < n {
				fail("MaxDecodedLen under-estimates: %d < %d", MaxDecodedLen(enc), n)
			}
		}
	}
	/* Perl as the external oracle for the specification itself. */
	perlChecked := 0
	if _, err := exec.LookPath("perl"); nil == err {
		cmd := exec.Command("perl", "-e", `binmode STDOUT; while(<STDIN>){chomp; my $e=pack("u",pack("H*",$_)); print length($e),"\n",$e;}`)
		cmd.Stdin = &perlIn
		out, err := cmd.Output()
		if nil != err {
			t.Logf("perl oracle not usable: %v", err)
		} else {
			for _, want := range perlWant {
				nl := bytes.IndexByte(out, '\n')
				n, _ := strconv.Atoi(string(out[:nl]))
				got := out[nl+1 : nl+1+n]
				out = out[nl+1+n:]
				if !bytes.Equal(got, want) {
					fail("encoder output %q differs from perl pack(\"u\") %q", want, got)
				}
				perlChecked++
			}
		}
	}

	/* Arbitrary (mostly invalid) encoded text: total, pure, error locates. */
	alphabet := []byte("`!\"#$%&'()*+,-./0123456789:;<=>?@ABCDEFGHIJKLMNOPQRSTUVWXYZ[\\]^_ \r\n\n\n\x00\x7f\xffaz~")
	for i := 0; i < nInvalid; i++ {
		n := rnd.Intn(140)
		src := make([]byte, n)
		for j := range src {
			src[j] = alphabet[rnd.Intn(len(alphabet))]
		}
		cases++
		dst := make([]byte, 2, 2+n+4)
		copy(dst, "xy")
		if msg := verifCheckDecode(dst, src); "" != msg {
			fail("%s", msg)
		}
	}
	t.Logf("VERIF-BOUNDED cases=%d encoded_bytes_checked=%d perl_compared=%d maxlen=%d invalid=%d seed=%d", cases, checked, perlChecked, maxLen, nInvalid, seed)
	fmt.Println(strings.TrimSpace(fmt.Sprintf("VERIF-BOUNDED cases=%d encoded_bytes_checked=%d perl_compared=%d maxlen=%d invalid=%d seed=%d", cases, checked, perlChecked, maxLen, nInvalid, seed)))
}
