package simpleshell

// Replay driver for C13: simpleshell.Go/post@process_defaults_untouched.
// A call with a fingerprint must leave the process-wide default HTTP client
// as it found it (no server is needed: the connection attempt may fail).

import (
	"context"
	"crypto/sha256"
	"encoding/base64"
	"net/http"
	"testing"
)

func TestVerifReplayDefaultClient(t *testing.T) {
	before := http.DefaultClient.Transport
	sum := sha256.Sum256([]byte("some key"))
	fp := "sha256//" + base64.StdEncoding.EncodeToString(sum[:])
	_, _, sh := NewEchoShell()
	Go(context.Background(), ConnConfig{C2: "https://127.0.0.1:1/io", Fingerprint: fp}, sh)
	if after := http.DefaultClient.Transport; after != before {
		t.Fatalf("REPRODUCED: http.DefaultClient.Transport was %v before the call and is %T %p after it: later requests of the process (with another or no fingerprint) inherit this call's pin", before, after, after)
	}
}
