package shellfuncsfile

// Replay driver for C17: fromSingleFile/post@unmatched_file_is_passed_through,
// fromDirectory dot-file obligations.

import (
	"os"
	"path/filepath"
	"strings"
	"testing"
)

func TestVerifReplayC17(t *testing.T) {
	dir := t.TempDir()
	must := func(err error) {
		if nil != err {
			t.Fatal(err)
		}
	}
	/* A single file no filter matches is returned unchanged. */
	plain := filepath.Join(dir, "plain.txt")
	must(os.WriteFile(plain, []byte("echo plain\n"), 0600))
	c := NewDefaultConverter()
	if got, err := c.From(plain); nil != err {
		t.Errorf("REPRODUCED: single file without a matching filter: error %q instead of its content", err)
	} else if "echo plain\n" != string(got) {
		t.Errorf("REPRODUCED: single file without a matching filter: got %q", got)
	}
	/* Dot-files contribute nothing and cannot make the conversion fail. */
	d := filepath.Join(dir, "d")
	must(os.Mkdir(d, 0700))
	must(os.WriteFile(filepath.Join(d, "a.sh"), []byte("a() { :; }\n"), 0600))
	must(os.WriteFile(filepath.Join(d, ".hidden.sh"), []byte("hidden() { :; }\n"), 0600))
	if got, err := c.From(d); nil != err {
		t.Errorf("REPRODUCED: directory with a dot-file: error %q", err)
	} else if strings.Contains(string(got), "hidden") {
		t.Errorf("REPRODUCED: dot-file .hidden.sh is part of the payload: %q", got)
	}
	must(os.Symlink(filepath.Join(d, "nonexistent"), filepath.Join(d, ".#lock.sh")))
	if _, err := c.From(d); nil != err {
		t.Errorf("REPRODUCED: a dangling symlink among the dot-files makes the conversion fail: %q", err)
	}
}
