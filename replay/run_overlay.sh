#!/bin/bash
# usage: run_overlay.sh <repo-root> <pkgdir> <driver_test.go> <TestName>
# Runs an in-package test injected via -overlay (nothing written to the repo).
root=$1; pkg=$2; drv=$3; tst=$4
tmp=$(mktemp -d)
trap 'rm -rf $tmp' EXIT
dst=$root/$pkg/zz_verif_replay_test.go
printf '{"Replace":{"%s":"%s"}}' "$dst" "$drv" > $tmp/ov.json
cd $root/$pkg && GOFLAGS=-mod=mod GOPROXY=off GOSUMDB=off GOTOOLCHAIN=local go test -overlay $tmp/ov.json -vet=off -count=1 -timeout 60s -run "^${tst}\$" . 2>&1
