#!/bin/bash
# selftest.sh [ids...] - re-run the checks against every kept property-breaking change
# (/verif/seeded/<id>/patch.diff, /verif/selftest/break/*.diff: must be reported) and every
# harmless edit (/verif/selftest/harmless/*.diff: must NOT be reported), in a scratch
# worktree of /repo under /tmp that is removed afterwards.  Says nothing about /repo itself.
export GOFLAGS=-mod=mod GOPROXY=off GOSUMDB=off GOTOOLCHAIN=local
W=/tmp/govc-selftest
rm -rf $W; git -C /repo worktree prune
git -C /repo worktree add -q --detach $W HEAD || exit 2
trap 'git -C /repo worktree remove --force $W 2>/dev/null; rm -rf /tmp/govc-selftest-out' EXIT
fail=0
run() { # name patch props expect(break|harmless)
  name=$1; patch=$2; props=$3; expect=$4
  (cd $W && git checkout -q -- . && git clean -fdq)
  if ! (cd $W && git apply $patch 2>/dev/null); then echo "SKIP $name: patch does not apply to the current tree"; return; fi
  if ! (cd $W && go build ./... 2>/dev/null); then echo "SKIP $name: does not build"; return; fi
  total=0
  for p in $props; do
    n=$(GOVC_REPO=$W GOVC_OUT=/tmp/govc-selftest-out /verif/bin/govc check $p 2>&1 | grep -c "^VIOLATION")
    total=$((total+n))
  done
  if [ "$expect" = break ]; then
    if [ $total -ge 1 ]; then echo "ok   $name: reported ($total obligations) by $props"; else echo "MISS $name: not reported by $props"; fail=1; fi
  else
    if [ $total -eq 0 ]; then echo "ok   $name: harmless edit not reported by $props"; else echo "FALSE-ALARM $name: $total obligations reported by $props"; fail=1; fi
  fi
}
sel="$@"
want() { [ -z "$sel" ] && return 0; for s in $sel; do [ "$s" = "$1" ] && return 0; done; return 1; }
for d in /verif/seeded/*/; do
  id=$(basename $d); want $id || continue
  props=$(python3 -c "import json;print(json.load(open('$d/meta.json')).get('checks_run','$id'))" 2>/dev/null || echo ${id%%-*})
  run "seeded/$id" $d/patch.diff "$props" break
done
for f in /verif/selftest/break/*.diff; do
  [ -f "$f" ] || continue
  n=$(basename $f .diff); want $n || continue
  props=$(head -1 $f | sed -n 's/^# props: //p')
  run "break/$n" $f "$props" break
done
for f in /verif/selftest/harmless/*.diff; do
  [ -f "$f" ] || continue
  n=$(basename $f .diff); want $n || continue
  props=$(head -1 $f | sed -n 's/^# props: //p')
  run "harmless/$n" $f "$props" harmless
done
exit $fail
