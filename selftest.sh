#!/bin/bash
# selftest.sh [ids...] - re-run the checks against every kept property-breaking change
# (/verif/seeded/<id>/patch.diff, /verif/selftest/break/*.diff: must be reported) and every
# harmless edit (/verif/selftest/harmless/*.diff: must NOT be reported), in scratch worktrees of
# /repo under /tmp that are removed afterwards.  Says nothing about /repo itself.
# Breaking changes run on SELFTEST_JOBS workers (default 4; a solver timeout under load can only
# add reports there); harmless edits run one at a time, after the workers are done, so that load
# cannot turn a slow proof into a false alarm.
export GOFLAGS=-mod=mod GOPROXY=off GOSUMDB=off GOTOOLCHAIN=local
JOBS=${SELFTEST_JOBS:-4}
W=/tmp/govc-selftest
rm -rf $W $W-*; git -C /repo worktree prune
trap 'for i in $(seq 0 $JOBS); do git -C /repo worktree remove --force $W-$i 2>/dev/null; done; rm -rf /tmp/govc-selftest-out-* /tmp/govc-selftest-list-* /tmp/govc-selftest-res-*' EXIT
for i in $(seq 0 $JOBS); do git -C /repo worktree add -q --detach $W-$i HEAD || exit 2; done
run() { # worktree name patch props expect(break|harmless)
  wt=$1; name=$2; patch=$3; props=$4; expect=$5
  (cd $wt && git checkout -q -- . && git clean -fdq)
  if ! (cd $wt && git apply $patch 2>/dev/null); then echo "SKIP $name: patch does not apply to the current tree"; return; fi
  if ! (cd $wt && go build ./... 2>/dev/null); then echo "SKIP $name: does not build"; return; fi
  total=0
  for p in $props; do
    n=$(GOVC_REPO=$wt GOVC_OUT=/tmp/govc-selftest-out-$(basename $wt) /verif/bin/govc check $p 2>&1 | grep -c "^VIOLATION")
    total=$((total+n))
  done
  if [ "$expect" = break ]; then
    if [ $total -ge 1 ]; then echo "ok   $name: reported ($total obligations) by $props"; else echo "MISS $name: not reported by $props"; fi
  else
    if [ $total -eq 0 ]; then echo "ok   $name: harmless edit not reported by $props"; else echo "FALSE-ALARM $name: $total obligations reported by $props"; fi
  fi
}
sel="$@"
want() { [ -z "$sel" ] && return 0; for s in $sel; do [ "$s" = "$1" ] && return 0; done; return 1; }
# work list: name|patch|props
k=0
for d in /verif/seeded/*/; do
  id=$(basename $d); want $id || continue
  props=$(python3 -c "import json;print(json.load(open('$d/meta.json')).get('checks_run','$id'))" 2>/dev/null || echo ${id%%-*})
  echo "seeded/$id|$d/patch.diff|$props" >> /tmp/govc-selftest-list-$((k % JOBS)); k=$((k+1))
done
for f in /verif/selftest/break/*.diff; do
  [ -f "$f" ] || continue
  n=$(basename $f .diff); want $n || continue
  props=$(head -1 $f | sed -n 's/^# props: //p')
  echo "break/$n|$f|$props" >> /tmp/govc-selftest-list-$((k % JOBS)); k=$((k+1))
done
for i in $(seq 0 $((JOBS-1))); do
  [ -f /tmp/govc-selftest-list-$i ] || continue
  ( while IFS='|' read -r name patch props; do run $W-$i "$name" "$patch" "$props" break; done < /tmp/govc-selftest-list-$i ) > /tmp/govc-selftest-res-$i 2>&1 &
done
wait
cat /tmp/govc-selftest-res-* 2>/dev/null | sort -k2
for f in /verif/selftest/harmless/*.diff; do
  [ -f "$f" ] || continue
  n=$(basename $f .diff); want $n || continue
  props=$(head -1 $f | sed -n 's/^# props: //p')
  run $W-$JOBS "harmless/$n" $f "$props" harmless
done | tee /tmp/govc-selftest-res-h
if cat /tmp/govc-selftest-res-* 2>/dev/null | grep -qE "^(MISS|FALSE-ALARM)"; then exit 1; fi
exit 0
