#!/bin/bash
# usage: seed_eval.sh <Cxx> [checks...]   - confirm a seeded change from /tmp/seed/<Cxx> and run checks against it
id=$1; shift
checks="$@"; [ -z "$checks" ] && checks=$id
export GOFLAGS=-mod=mod GOPROXY=off GOSUMDB=off GOTOOLCHAIN=local
src=${SEEDROOT:-/tmp/seed}/$id
dst=/verif/seeded/$id${SUFFIX:-}
mkdir -p $dst
cp $src/SEED_PATCH.diff $dst/patch.diff
cp $src/SEED_META.txt $dst/agent_notes.txt 2>/dev/null
demo=$(cd $src && git status --porcelain | grep zz_seed_demo_test.go | awk '{print $2}' | head -1)
[ -z "$demo" ] && demo=$(cd $src && find . -name zz_seed_demo_test.go | head -1 | sed 's|^\./||')
cp $src/$demo $dst/$(basename $demo)
pkgdir=$(dirname $demo)
[ -d /tmp/mut ] || { git -C /repo worktree prune; git -C /repo worktree add -q --detach /tmp/mut HEAD; }
cd /tmp/mut && git checkout -q -- . && git clean -fdq && git checkout -q --detach $(git -C /repo rev-parse HEAD)
git apply $dst/patch.diff || { echo "PATCH DOES NOT APPLY"; exit 1; }
b=$(go build ./... 2>&1 | tail -1); echo "build: ${b:-ok}"
s=$(go test -vet=off -count=1 ./... 2>&1 | grep -v "no test files" | grep -v "^ok" | head -3); echo "suite with change: ${s:-all ok}"
cp $dst/$(basename $demo) $pkgdir/
d1=$(go test -vet=off -count=1 -run TestSeedDemo ./$pkgdir 2>&1 | tail -1); echo "demo with change: $d1"
git apply -R $dst/patch.diff
d2=$(go test -vet=off -count=1 -run TestSeedDemo ./$pkgdir 2>&1 | tail -1); echo "demo without change: $d2"
rm -f $pkgdir/zz_seed_demo_test.go
git apply $dst/patch.diff
res=""; obs=""
for c in $checks; do
  out=$(GOVC_REPO=/tmp/mut /verif/bin/govc check $c 2>&1)
  echo "$out" | grep -E "VIOLATION|BROKEN" | cut -c1-260
  echo "$out" | tail -1
  res="$res $c:$(echo "$out" | grep -c VIOLATION)"
  obs="$obs $(echo "$out" | grep VIOLATION | sed -E 's/.*obligation=([^ ]*).*/\1/' | head -6 | tr '\n' ' ')"
done
git checkout -q -- . 
echo "RESULT $id${SUFFIX:-}:$res"
cat > $dst/meta.json <<EOM
{"property": "$id", "demo": "$(basename $demo)", "demo_package": "$pkgdir", "confirmed": {"build": "${b:-ok}", "suite_with_change": "${s:-all ok}", "demo_with_change": "$(echo $d1 | tr -d '"')", "demo_without_change": "$(echo $d2 | tr -d '"')"}, "checks_run": "$checks", "violations_reported": "$res", "reported_by": "$(echo $obs | tr -d '"')"}
EOM
