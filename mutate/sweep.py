#!/usr/bin/env python3
"""Mutation sweep: for every mutation point of the packages given, build the
mutant in a scratch worktree, run the repository's test suite, and if it still
passes run the contracts of the mutated package against it.  A mutant that
compiles, passes the suite and verifies is a SURVIVOR (a change the machinery
does not notice).  Results: one JSON line per mutant on stdout.
usage: sweep.py <worker-id> <nworkers> <pkgdir>..."""
import json, os, subprocess, sys, re
wid, nw = int(sys.argv[1]), int(sys.argv[2])
pkgs = sys.argv[3:]
W = f"/tmp/mutsweep{wid}"
env = dict(os.environ, GOFLAGS="-mod=mod", GOPROXY="off", GOSUMDB="off", GOTOOLCHAIN="local")
def sh(cmd, cwd=None, timeout=600, extra=None):
    e = dict(env); e.update(extra or {})
    try:
        r = subprocess.run(cmd, shell=True, cwd=cwd, env=e, capture_output=True, text=True, timeout=timeout)
        return r.returncode, r.stdout + r.stderr
    except subprocess.TimeoutExpired:
        return 124, "timeout"
if not os.path.isdir(W):
    sh(f"git -C /repo worktree add -q --detach {W} HEAD")
head = sh("git -C /repo rev-parse HEAD")[1].strip()
sh(f"git checkout -q -- . && git clean -fdq && git checkout -q --detach {head}", cwd=W)
contracted = {}
def has_contract(pkg, fn):
    if pkg not in contracted:
        p = os.path.join("/repo", pkg, "zz_contracts_verif.go")
        contracted[pkg] = open(p).read() if os.path.exists(p) else ""
    return re.search(r"^//@ func " + re.escape(fn) + r"[(#]", contracted[pkg], re.M) is not None
done = set()
if os.path.exists("/verif/mutate/results/none.jsonl"):
    for l in open("/verif/mutate/results/none.jsonl"):
        try:
            d = json.loads(l); done.add((d["pkg"], d["func"], d["kind"], d["line"]))
        except Exception:
            pass
n = 0
for pkg in pkgs:
    rc, out = sh(f"/verif/bin/mutpoints {os.path.join(W, pkg)}")
    for line in out.splitlines():
        try:
            pt = json.loads(line)
        except Exception:
            continue
        n += 1
        if n % nw != wid % nw:
            continue
        if (pkg, pt["func"], pt["kind"], pt["line"]) in done:
            continue
        path = pt["file"]
        src = open(path, "rb").read()
        a, b = pt["start"], pt["end"]
        if pt["kind"] == "negate-if":
            mut = src[:a] + b"!(" + src[a:b] + b")" + src[b:]
        else:
            mut = src[:a] + src[b:]
        open(path, "wb").write(mut)
        res = dict(pkg=pkg, func=pt["func"], kind=pt["kind"], line=pt["line"], text=pt["text"], contract=has_contract(pkg, pt["func"]))
        try:
            rc, out = sh("go build ./...", cwd=W, timeout=300)
            if rc != 0:
                res["verdict"] = "nocompile"
            else:
                rc, out = sh("go test -vet=off -count=1 -timeout 20s ./...", cwd=W, timeout=90)
                if rc != 0:
                    res["verdict"] = "killed-by-tests"
                else:
                    vp = "main" if pkg == "." else pkg
                    rc, out = sh(f"/verif/bin/govc verify {vp}", cwd="/verif/govc", timeout=900, extra={"GOVC_REPO": W, "GOVC_TIMEOUT": "8"})
                    m = re.search(r"undischarged: (\d+)", out)
                    errs = [l for l in out.splitlines() if l.startswith("ERROR") or l.startswith("undischarged ") or l.startswith("counterexample")]
                    # the known open finding does not count
                    errs = [l for l in errs if "FromPerl/post@uniform_template" not in l]
                    if errs or m is None:
                        res["verdict"] = "killed-by-contracts"
                        res["by"] = [l.split()[1] if len(l.split()) > 1 else l for l in errs][:4]
                    else:
                        res["verdict"] = "SURVIVED"
        finally:
            open(path, "wb").write(src)
        print(json.dumps(res), flush=True)
