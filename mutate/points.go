// points lists mutation points (as byte ranges) in the non-test Go files of a
// package directory: if-conditions to negate, call statements and field
// assignments to delete, defers to delete.  Output: one JSON object per line.
package main

import (
	"encoding/json"
	"fmt"
	"go/ast"
	"go/parser"
	"go/token"
	"os"
	"path/filepath"
	"strings"
)

type point struct {
	File  string `json:"file"`
	Func  string `json:"func"`
	Kind  string `json:"kind"`
	Start int    `json:"start"`
	End   int    `json:"end"`
	Line  int    `json:"line"`
	Text  string `json:"text"`
}

func main() {
	dir := os.Args[1]
	ents, _ := os.ReadDir(dir)
	enc := json.NewEncoder(os.Stdout)
	for _, e := range ents {
		n := e.Name()
		if !strings.HasSuffix(n, ".go") || strings.HasSuffix(n, "_test.go") || strings.HasPrefix(n, "zz_") {
			continue
		}
		path := filepath.Join(dir, n)
		src, err := os.ReadFile(path)
		if err != nil {
			continue
		}
		fset := token.NewFileSet()
		f, err := parser.ParseFile(fset, path, src, 0)
		if err != nil {
			fmt.Fprintln(os.Stderr, err)
			continue
		}
		for _, d := range f.Decls {
			fd, ok := d.(*ast.FuncDecl)
			if !ok || fd.Body == nil {
				continue
			}
			name := fd.Name.Name
			if fd.Recv != nil && len(fd.Recv.List) == 1 {
				t := fd.Recv.List[0].Type
				if s, ok := t.(*ast.StarExpr); ok {
					t = s.X
				}
				if id, ok := t.(*ast.Ident); ok {
					name = id.Name + "." + name
				}
			}
			emit := func(kind string, a, b token.Pos) {
				p0, p1 := fset.Position(a), fset.Position(b)
				txt := string(src[p0.Offset:p1.Offset])
				if len(txt) > 80 {
					txt = txt[:80]
				}
				enc.Encode(point{File: path, Func: name, Kind: kind, Start: p0.Offset, End: p1.Offset, Line: p0.Line, Text: strings.Join(strings.Fields(txt), " ")})
			}
			ast.Inspect(fd.Body, func(x ast.Node) bool {
				switch s := x.(type) {
				case *ast.IfStmt:
					emit("negate-if", s.Cond.Pos(), s.Cond.End())
				case *ast.ExprStmt:
					if _, ok := s.X.(*ast.CallExpr); ok {
						emit("delete-call", s.Pos(), s.End())
					}
				case *ast.AssignStmt:
					if s.Tok == token.ASSIGN && len(s.Lhs) == 1 {
						if _, ok := s.Lhs[0].(*ast.SelectorExpr); ok {
							emit("delete-field-assign", s.Pos(), s.End())
						} else if _, ok := s.Lhs[0].(*ast.StarExpr); ok {
							emit("delete-deref-assign", s.Pos(), s.End())
						} else if _, ok := s.Lhs[0].(*ast.IndexExpr); ok {
							emit("delete-index-assign", s.Pos(), s.End())
						}
					}
				case *ast.DeferStmt:
					emit("delete-defer", s.Pos(), s.End())
				case *ast.IncDecStmt:
					emit("delete-incdec", s.Pos(), s.End())
				case *ast.BranchStmt:
					if s.Tok == token.BREAK || s.Tok == token.CONTINUE {
						emit("delete-branch", s.Pos(), s.End())
					}
				}
				return true
			})
		}
	}
}
