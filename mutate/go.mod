module mutate

go 1.23.1
